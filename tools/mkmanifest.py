#!/venv/bin/python
"""(re)generates /verif/MANIFEST.json from the property modules present in harness/props/ and validates it."""
import os, sys, json, importlib
VERIF = os.path.dirname(os.path.dirname(os.path.abspath(__file__)))
sys.path.insert(0, VERIF)
os.environ.setdefault('VERIF_REPO', '/repo')
props = [json.loads(l) for l in open(os.path.join(VERIF, 'properties.jsonl'))]
NOT_APPLICABLE = {}
NOTES = json.load(open(os.path.join(VERIF, 'tools', 'manifest_notes.json')))
checks = []
na = []
for p in props:
    pid = p['id']
    path = os.path.join(VERIF, 'harness', 'props', pid.lower() + '.py')
    if not os.path.exists(path) or pid in NOTES.get('not_applicable', {}):
        na.append({'property_id': pid, 'reason': NOTES.get('not_applicable', {}).get(pid, 'check not built yet (work in progress); see DESIGN.md section 9 for the planned check')})
        continue
    mod = importlib.import_module('harness.props.' + pid.lower())
    P = mod.PROP
    n = NOTES['checks'].get(pid, {})
    checks.append({
        'property_id': pid,
        'quick_cmd': './check %s --tier quick' % pid,
        'thorough_cmd': './check %s --tier thorough' % pid,
        'evidence_file': 'evidence/%s.json' % pid,
        'replay_cmd_template': './check %s --replay {path}' % pid,
        'engine': 'harness',
        'level_claimed': {'category': 'exploration',
                          'text': n.get('level_text', 'Generated-input search (Hypothesis) against an explicit oracle: ' + P.rule),
                          'design_ref': 'DESIGN.md section 9, ' + pid},
        'level_note': n.get('level_note', '; '.join(P.assumptions)),
        'technique': P.technique,
    })
m = {
    'version': 1,
    'setup_cmd': "/venv/bin/python -c 'import hypothesis' 2>/dev/null || /venv/bin/python -m pip install -q --no-index --find-links /opt/veriftools/wheels hypothesis",
    'hooks': {'guard': 'YLDPROLOG_VERIF', 'enable': 'no hooks in the repository: checks import ${VERIF_REPO:-/repo}/src as is; the Variable registry asked for by C03/C17 is a harness-side wrapper around yldprolog.engine.Variable.__init__ (harness/impl.py); the guard name is reserved but unused',
              'baseline_off_cmd': 'cd /repo && /venv/bin/python -m pytest -ra -q -p no:cacheprovider --timeout=900 --continue-on-collection-errors',
              'source_commits': [], 'add_only': True},
    'engines': [{'name': 'harness', 'path': 'harness/', 'serves_properties': [c['property_id'] for c in checks],
                 'kind_free_text': 'Hypothesis-driven property-based testing: byte-genome program/history generators, reference Prolog interpreter (harness/refint.py) cross-checked by a second engine (harness/refmach.py), independent grammar recogniser, bounded-exhaustive enumerations sharded over 16 processes'}],
    'checks': checks,
    'not_applicable': na,
    'notes': NOTES.get('notes', ''),
}
json.dump(m, open(os.path.join(VERIF, 'MANIFEST.json'), 'w'), indent=1)
print('checks', len(checks), 'not_applicable', len(na))

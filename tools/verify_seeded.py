#!/venv/bin/python
"""Confirms a candidate seeded change: in a scratch worktree of /repo (outside /repo and /verif) the demo passes
without the patch; with the patch the repository's test-suite still passes and the demo fails.
usage: verify_seeded.py <dir with patch.diff demo.py> ...   (prints one line per candidate)"""
import os, subprocess, sys, tempfile, shutil, json

def sh(cmd, cwd=None, env=None, timeout=600):
    p = subprocess.run(cmd, shell=True, cwd=cwd, env=env, stdout=subprocess.PIPE, stderr=subprocess.STDOUT, timeout=timeout)
    return p.returncode, p.stdout.decode('utf8', 'replace')

def main(dirs):
    base = tempfile.mkdtemp(prefix='seedchk-')
    wt = os.path.join(base, 'wt')
    rc, out = sh('git -C /repo worktree add -q --detach %s HEAD' % wt)
    assert rc == 0, out
    env = dict(os.environ, PYTHONPATH=os.path.join(wt, 'src'), PYTHONDONTWRITEBYTECODE='1')
    results = {}
    try:
        for d in dirs:
            d = os.path.abspath(d)
            patch, demo = os.path.join(d, 'patch.diff'), os.path.join(d, 'demo.py')
            r = {}
            sh('git checkout -q -- . && git clean -fdq', cwd=wt)
            r['demo_clean'] = sh('/venv/bin/python %s' % demo, cwd=base, env=env)[0]
            rc, out = sh('git apply %s' % patch, cwd=wt)
            r['applies'] = rc == 0
            if rc == 0:
                rc, out = sh('/venv/bin/python -m pytest -q -p no:cacheprovider -x', cwd=wt, env=env)
                r['tests'] = out.strip().splitlines()[-1] if out.strip() else ''
                r['tests_ok'] = rc == 0 and '61 passed' in out
                r['demo_patched'] = sh('/venv/bin/python %s' % demo, cwd=base, env=env)[0]
            r['confirmed'] = bool(r.get('applies') and r.get('tests_ok') and r['demo_clean'] == 0 and r.get('demo_patched') == 1)
            results[d] = r
            print(('CONFIRMED ' if r['confirmed'] else 'REJECTED  ') + d + ' ' + json.dumps(r), flush=True)
    finally:
        sh('git -C /repo worktree remove --force %s' % wt)
        shutil.rmtree(base, ignore_errors=True)
    return results

if __name__ == '__main__':
    main(sys.argv[1:])

#!/bin/sh
# usage: tools/runall.sh [tier] [seed]   - runs every check once, prints one line per check, validates the evidence
tier=${1:-quick}; seed=${2:-1}
cd "$(dirname "$0")/.."
for i in 01 02 03 04 05 06 07 08 09 10 11 12 13 14 15 16 17 18 19 20; do
  s=$(date +%s)
  out=$(VERIF_SEED=$seed ./check C$i --tier $tier 2>&1); rc=$?
  e=$(date +%s)
  echo "C$i rc=$rc $((e-s))s $(echo "$out" | grep -E 'VIOLATION|HARNESS|KNOWN' | head -3 | tr '\n' ' ') $(echo "$out" | tail -1 | cut -c1-110)"
done
python3-vt - <<'PY'
import json,jsonschema,glob
sch=json.load(open('/root/.vp/EVIDENCE.schema.json'))
bad=0
for f in sorted(glob.glob('/verif/evidence/C*.json')):
    try: jsonschema.validate(json.load(open(f)),sch)
    except Exception as e: bad+=1; print('INVALID',f,str(e)[:200])
print('evidence files',len(glob.glob('/verif/evidence/C*.json')),'invalid',bad)
PY

#!/venv/bin/python
"""Runs ALL checks against behaviour-preserving changes (/verif/benign/<name>/patch.diff): a scratch copy of /repo's
working tree is made outside /repo and /verif, the patch applied, the repository's tests and the change's own
selfcheck.py run, and then every check with VERIF_REPO pointing at the copy.  Expected: every check exits 0.  An exit
status 1 is an ALARM to be analysed (a false alarm of the check, or a change that is not behaviour-preserving after
all); exit 2 is a harness error.
usage: benign.py [--tier quick] [--jobs 4] [--checks C01,C02] [--seed 1] [name ...]"""
import os, sys, json, subprocess, tempfile, shutil, argparse, concurrent.futures, time

VERIF = os.path.dirname(os.path.dirname(os.path.abspath(__file__)))
ALL = ['C%02d' % i for i in range(1, 21)]

def run_one(name, checks, tier, seed, jobs):
    d = os.path.join(VERIF, 'benign', name)
    base = tempfile.mkdtemp(prefix='benign-%s-' % name)
    res = {}
    try:
        repo = os.path.join(base, 'repo')
        subprocess.run(['rsync', '-a', '--exclude', '.git', '--exclude', '__pycache__', '/repo/', repo + '/'], check=True)
        p = subprocess.run(['patch', '-p1', '-s', '-d', repo, '-i', os.path.join(d, 'patch.diff')], stdout=subprocess.PIPE, stderr=subprocess.STDOUT)
        if p.returncode != 0:
            return name, {'error': 'patch does not apply: ' + p.stdout.decode()[-300:]}
        env0 = dict(os.environ, PYTHONPATH=os.path.join(repo, 'src'), PYTHONDONTWRITEBYTECODE='1')
        t = subprocess.run(['/venv/bin/python', '-m', 'pytest', '-q', '-p', 'no:cacheprovider', '-x'], cwd=repo, env=env0, stdout=subprocess.PIPE, stderr=subprocess.STDOUT)
        if t.returncode != 0 or b'61 passed' not in t.stdout:
            return name, {'error': 'repository tests fail with the change: ' + t.stdout.decode()[-300:]}
        sc = os.path.join(d, 'selfcheck.py')
        if os.path.exists(sc):
            t = subprocess.run(['/venv/bin/python', sc], cwd=base, env=env0, stdout=subprocess.PIPE, stderr=subprocess.STDOUT, timeout=600)
            if t.returncode != 0:
                return name, {'error': 'selfcheck fails with the change: ' + t.stdout.decode()[-300:]}

        def one(c):
            env = dict(os.environ, VERIF_REPO=repo, VERIF_EVIDENCE_DIR=os.path.join(base, 'ev'),
                       VERIF_REPLAY_DIR=os.path.join(base, 'rp'), VERIF_SEED=str(seed))
            t0 = time.time()
            p = subprocess.run([os.path.join(VERIF, 'check'), c, '--tier', tier], cwd=VERIF, env=env, stdout=subprocess.PIPE, stderr=subprocess.STDOUT)
            out = p.stdout.decode('utf8', 'replace')
            keep = None
            if p.returncode != 0:
                keep = os.path.join('/tmp', 'benign-alarm-%s-%s' % (name, c))
                shutil.rmtree(keep, ignore_errors=True)
                os.makedirs(keep)
                open(os.path.join(keep, 'out.txt'), 'w').write(out)
                rp = os.path.join(base, 'rp', c)
                if os.path.isdir(rp):
                    shutil.copytree(rp, os.path.join(keep, 'replays'))
            return c, {'rc': p.returncode, 'wall': round(time.time() - t0, 1),
                       'signatures': [l.strip() for l in out.splitlines() if l.strip().startswith('signature:')][:3], 'kept': keep}
        with concurrent.futures.ThreadPoolExecutor(jobs) as ex:
            for c, r in ex.map(one, checks):
                res[c] = r
    finally:
        shutil.rmtree(base, ignore_errors=True)
    return name, res

def main():
    ap = argparse.ArgumentParser()
    ap.add_argument('names', nargs='*')
    ap.add_argument('--tier', default='quick')
    ap.add_argument('--checks', default='')
    ap.add_argument('--jobs', type=int, default=4)
    ap.add_argument('--seed', type=int, default=1)
    a = ap.parse_args()
    names = a.names or sorted(n for n in os.listdir(os.path.join(VERIF, 'benign')) if os.path.exists(os.path.join(VERIF, 'benign', n, 'patch.diff')))
    checks = [c for c in a.checks.split(',') if c] or ALL
    alarms = 0
    for n in names:
        name, res = run_one(n, checks, a.tier, a.seed, a.jobs)
        if 'error' in res:
            print('%-10s UNUSABLE %s' % (name, res['error'].replace('\n', ' | ')), flush=True)
            continue
        bad = {c: r for c, r in res.items() if r['rc'] != 0}
        alarms += len(bad)
        print('%-10s %s' % (name, 'quiet (%d checks)' % len(res) if not bad else 'ALARM ' + '; '.join('%s rc=%d %s [%s]' % (c, r['rc'], ' '.join(r['signatures']), r['kept']) for c, r in bad.items())), flush=True)
    return 1 if alarms else 0

if __name__ == '__main__':
    sys.exit(main())

#!/venv/bin/python
"""(re)writes /verif/regressions/<id>/*.json: hand-picked boundary cases - the inputs named in the property texts and
in the fix commits - in each check's case format.  They are replayed through the same decision function at the
start of every run (seconds-long replay tier); a failure there is reported like any other violation."""
import os, sys, json
VERIF = os.path.dirname(os.path.dirname(os.path.abspath(__file__)))
sys.path.insert(0, VERIF)
from harness.terms import mklist, NIL
from harness import gen
from harness.corpus import F, G, T, V, A, conj, disj, ite, neg, eq, neq, cl, TRUE, FAIL, CUT

def put(pid, name, case, note):
    d = os.path.join(VERIF, 'regressions', pid)
    os.makedirs(d, exist_ok=True)
    with open(os.path.join(d, name + '.json'), 'w') as f:
        json.dump({'property': pid, 'note': note, 'case': case}, f, indent=1, default=str, sort_keys=True)

def vz(clauses):
    # corpus helpers use ('v', 'Name'); make them clause-local and keep '_' anonymous
    out = []
    n = [0]
    for h, b in clauses:
        m = {}
        def r(t):
            if t[0] == 'v':
                if t[1] == '_':
                    n[0] += 1
                    return ('v', '_%d' % n[0])
                return m.setdefault(t, ('v', '%s%d' % (t[1], len(out))))
            if t[0] == 'f':
                return ('f', t[1], tuple(r(a) for a in t[2]))
            return t
        from harness.terms import body_map_terms
        out.append((r(h), body_map_terms(b, r)))
    return out

def prog(pid, name, clauses, queries, note, **extra):
    clauses = vz(clauses)
    case = {'text': gen.program_text(clauses), 'clauses': clauses, 'queries': queries}
    case.update(extra)
    put(pid, name, case, note)

Q = lambda n: ('v', 'Q%d' % n)
# ---- C01 / C06 / C05
prog('C01', 'goal-then-fail', [cl(A('p'), conj(G('q'), FAIL)), cl(A('q'))], [A('p'), A('q')], "'p :- q, fail.' crashed the code generator (fixed 4cfa94a)")
prog('C01', 'only-fail', [cl(A('p'), FAIL), cl(F('r', 'a'), conj(FAIL, G('q'))), cl(A('q'))], [A('p'), F('r', Q(0))], "'p :- fail.' unloadable (fixed 16638e0)")
prog('C01', 'repeated-nested-head-vars', [cl(F('p', F('f', 'X'), 'X')), cl(F('q', ('f', '.', (V('X'), ('f', '.', (V('X'), V('T')))))))],
     [F('p', Q(0), 'a'), F('p', F('f', 'b'), Q(1)), F('q', [1, Q(0), 2])], 'repeated head variables nested in structures; aliasing in answers')
prog('C01', 'anonymous-variables-distinct', [cl(F('p', ('f', '.', (V('X'), V('_'))), ('f', '.', (V('X'), V('_'))))), cl(F('s', '_', '_'))],
     [F('p', ['a', 'b'], ['a', 'c', 'd']), F('s', 'a', 'b')], 'every _ is a distinct variable (also as list tails)')
prog('C06', 'disjunction-of-fails', [cl(A('p'), disj(FAIL, FAIL)), cl(A('p2'), ite(FAIL, TRUE, FAIL)), cl(F('q', 'a'))], [A('p'), A('p2')], "'p :- (fail;fail).' unloadable (fixed 16638e0)")
prog('C06', 'precedence', [cl(F('q', 'a')), cl(F('q', 'b')), cl(F('r', 1)), cl(F('p', 'X', 'Y'), (';', ('->', G('q', 'X'), (',', G('r', 'Y'), TRUE)), (',', eq('X', 'n'), eq('Y', 'm'))))],
     [F('p', Q(0), Q(1))], "',' binds tighter than '->' than ';'")
prog('C05', 'cut-positions', [cl(F('q', 'a')), cl(F('q', 'b')), cl(F('r', 1)), cl(F('r', 2)),
                               cl(F('p', 'X', 'Y'), (',', (',', CUT, G('r', 'Y')), G('q', 'X'))), cl(F('p', 'z', 'z')),
                               cl(F('m', 'X', 'Y'), conj(G('r', 'Y'), G('p2', 'X'))), cl(F('p2', 'X'), conj(G('q', 'X'), CUT)), cl(F('p2', 'zz'))],
     [F('p', Q(0), Q(1)), F('m', Q(0), Q(1))], 'goals right of a cut keep backtracking; the caller keeps its alternatives')
# ---- C09
prog('C09', 'goal-in-variable', [cl(F('foo', 'a')), cl(F('foo', 'b')), cl(F('r', 'Z'), conj(eq('G', F('foo', 'Z')), G('call', 'G'))),
                                  cl(F('o', 'X'), G('once', F('foo', 'zz'))), cl(F('o', 'e')), cl(A('z0')),
                                  cl(F('fa', 'L'), G('findall', 'x', 'z0', 'L')), cl(F('fg', 'L'), conj(eq('G', F('foo', 'X')), G('findall', 'X', 'G', 'L')))],
     [F('r', Q(0)), F('o', Q(0)), F('fa', Q(0)), F('fg', Q(0))], 'call(G) with G bound at run time; once without answer; findall with atom goal (fixed 7ebf235, cc684b6)')
# ---- C10
for i, t in enumerate(["a(X) :- b(X),, c(X).", "foo(a). ) garbage", "foo(a). 'unterminated", 'foo(a). "str".', "p(é).", "foo(a)..", "foo(a)", "member(X,[Y|L] :- member(X,L).",
                       "foo(a). % comment without newline", ". foo(a).", "foo(a).\n'unterminated\nbar(b).\nbaz(c).\n", "bar(b). #"]):
    put('C10', 'malformed-%02d' % i, {'text': t, 'edits': ['hand-picked']}, 'malformed text named in the property / fix ba29219 / seeded changes')
put('C10', 'valid-defs', {'text': "p(a).\nq(X) :- p(X), \\+ r.\np(b).\n:- d.\n'x1'(c).\n", 'edits': []}, 'valid text: definitions must equal the heads')
# ---- C11
for i, t in enumerate(["foo(01).\n", "foo(True) :- bar(True).\n", "foo(None).\n", "'hello world'(a).\n", "'1'(b).\n", "a = b.\n", "p :- fail.\n", "p :- q, fail.\nq.\n",
                       "long :- " + ", ".join("g(X%d)" % (j % 5) for j in range(19)) + ".\n", "long :- " + ", ".join("g(X%d)" % (j % 5) for j in range(25)) + ".\n",
                       "check :- q, fail.\nq.\nr.\ns(a).\n", "never(a) :- fail.\nafter.\n", "m(a).\nm(a, b).\nk.\nm(c).\n", "p(ATOM_NIL, L) :- ATOM_NIL = foo, L = [].\n",
                       "'ﬁ'(a).\n", "''(a).\n", "if(a).\ndef(a).\nclass.\n"]):
    put('C11', 'boundary-%02d' % i, {'text': t, 'kinds': ['hand-picked']}, 'boundary form named in the property / fix commits / seeded changes')
# ---- C12
for i, t in enumerate(["'a(x):\n  pass\nimport_os = 1\ndef b'(c).\n", "p(ATOM_NIL,L) :- ATOM_NIL = foo, L = [].\n", "i :- '$CUTIF'('ATOM_NIL'), r.\n",
                       "foo :- '$CUTIF'('canary()\n    y'), bar.\n", "'p_0(): yield False\ncanary()\ndef q' :- true.\n", "p(''');canary();(''').\n",
                       "g :- 'canary'(a), 'canary()'.\n", "v(True, None) :- True = foo, q(None).\n"]):
    put('C12', 'hostile-%02d' % i, {'text': t, 'positions': ['hand-picked']}, 'hostile text named in the property / fix commits / seeded changes')
# ---- histories
E = 'e0'
from harness.props.c07 import HELPERS
d = lambda *a: ('f', 'd', tuple(T(x) for x in a))
put('C07', 'zero-arity-unknown-bound-goal', {'ops': [['engine', E], ['load', E, HELPERS, True, 'ok'], ['run', E, F('assertz', 'flag'), 5], ['db', E], ['run', E, F('retract', 'flag'), 5], ['db', E],
     ['run', E, F('retractall', 'flag'), 5], ['run', E, F('retract', F('zz', '_')), 5], ['run', E, F('retractall', F('zz', '_')), 5], ['run', E, F('az', F('p', 'a')), 5], ['db', E],
     ['run', E, F('rt', F('p', 'X')), 5], ['db', E], ['run', E, F('az2', F('p', 'b', 'c')), 5], ['run', E, F('rt2', F('p', 'X', 'c')), 5], ['db', E]]},
    'retract(flag), retractall on unknown predicates, goals arriving in a bound variable (fixed 7ebf235, b6e07e9)')
put('C07', 'emptied-then-assert', {'ops': [['engine', E], ['assert', E, F('p', 'a'), True], ['run', E, F('retract', F('p', 'X')), 5], ['db', E], ['run', E, F('assertz', F('p', 'b')), 5], ['db', E],
     ['run', E, F('retractall', F('p', '_')), 5], ['assert', E, F('p', 'c'), False], ['db', E]]}, 'assert after the last fact was removed (seeded change C07-b)')
put('C07', 'suspended-retract-other-removal', {'ops': [['engine', E]] + [['assert', E, F('p', k), True] for k in (1, 2, 3, 4)] + [['open', E, 1, F('retract', F('p', 'X'))], ['step', 1], ['db', E],
     ['run', E, F('retract', F('p', 3)), 5], ['db', E], ['step', 1], ['db', E], ['step', 1], ['step', 1], ['close', 1], ['db', E]]}, 'a suspended retract resumed after another removal (seeded change C07-a)')
put('C14', 'grow-while-enumerating', {'ops': [['engine', E], ['load', E, vz([cl(F('t', 'X'), conj(G('assertz', F('d', 1)), G('d', 'X'), G('assertz', F('d', 2))))]), True, 'ok'], ['run', E, F('t', Q(0)), 40], ['db', E]]},
    "'t(X) :- assertz(p(1)), p(X), assertz(p(2)).' must terminate with one answer (fixed b60f425)")
put('C14', 'counter-and-drain', {'ops': [['engine', E], ['assert', E, F('c', 'z'), True], ['assert', E, F('d', 1), True], ['assert', E, F('d', 2), True], ['assert', E, F('d', 3), True],
     ['load', E, vz([cl(A('upd'), conj(G('retract', F('c', 'N')), G('assertz', F('c', F('s', 'N'))), FAIL)), cl(A('upd')), cl(A('drain'), conj(G('d', 'X'), G('retract', F('d', 'X')), FAIL)), cl(A('drain'))]), True, 'ok'],
     ['run', E, A('upd'), 5], ['db', E], ['run', E, A('drain'), 5], ['db', E]]}, 'failure-driven counter update terminates; drain loop visits every fact once')
put('C14', 'two-suspended-retracts', {'ops': [['engine', E]] + [['assert', E, F('d', k), True] for k in ('a', 'b', 'c')] + [['open', E, 1, F('retract', F('d', 'X'))], ['open', E, 2, F('retract', F('d', 'Y'))],
     ['step', 1], ['step', 2], ['step', 1], ['step', 2], ['step', 1], ['step', 2], ['step', 1], ['step', 2], ['close', 1], ['close', 2], ['db', E]]}, 'never removing or returning a fact twice (seeded change C14-b)')
put('C14', 'asserta-while-suspended', {'ops': [['engine', E]] + [['assert', E, F('d', k), True] for k in ('a', 'b', 'c')] + [['open', E, 1, F('d', 'X')], ['step', 1], ['assert', E, F('d', 'n'), False], ['step', 1], ['step', 1], ['step', 1], ['step', 1], ['close', 1], ['db', E]]},
    'asserta while a query is suspended (seeded change C14-a)')
put('C13', 'deep-and-nonground', {'ops': [['engine', E], ['load', E, vz([cl(F('t', 'Z'), conj(eq('X', F('f', 'Y')), eq('Y', 'a'), G('assertz', F('d', 'X')), G('d', F('f', 'Z')))),
     cl(A('u'), conj(G('assertz', F('e', '_')), G('e', 'a'), G('e', 'b'))), cl(F('w', 'X', 'Y'), conj(G('assertz', F('g', 'Z', 'Z')), G('g', 'X', 'a'), G('g', 'b', 'Y')))]), True, 'ok'],
     ['run', E, F('t', Q(0)), 5], ['run', E, F('d', F('f', 'b')), 5], ['run', E, A('u'), 5], ['run', E, F('w', Q(0), Q(1)), 5], ['db', E]]},
    "'X = f(Y), Y = a, assertz(p(X))' then p(f(b)) must fail; 'assertz(p(_)), p(a), p(b)' must succeed (fixed e2c8504)")
put('C13', 'api-chain', {'ops': [['engine', E], ['unify', E, 1, V('X'), V('Y')], ['unify', E, 2, V('Y'), A('a')], ['assertv', E, F('d', V('X'), F('f', V('X'))), True], ['db', E], ['release', E, 1], ['db', E], ['release', E, 2], ['db', E],
     ['run', E, F('d', 'b', Q(0)), 5], ['run', E, F('d', Q(0), Q(1)), 5]]}, 'chain-bound variable at assert_fact time (seeded change C13-b)')
put('C13', 'nested-variable-two-uses', {'ops': [['engine', E], ['assert', E, F('d', F('f', V('_1'))), True], ['load', E, vz([cl(F('two', 'X', 'Y'), conj(G('d', F('f', 'X')), G('d', F('f', 'Y')), eq('X', 'a'), eq('Y', 'b')))]), True, 'ok'],
     ['run', E, F('two', Q(0), Q(1)), 5], ['open', E, 1, F('d', F('f', 'a'))], ['step', 1], ['run', E, F('d', F('f', 'b')), 5], ['close', 1]]}, 'a variable nested inside a stored fact is fresh at every use (seeded changes C13-a, C04-b)')
# ---- C15
put('C15', 'outer-before-inner', {'eqs': [['eq', V('X'), F('g', V('Y'))], ['eq', V('Y'), T(1)]], 'mode': 'findall', 'close_after': 0}, "'p(X) :- X = g(Y), Y = 1.' gives findall [g(1)] (fixed 03982ca)")
for m in ('direct', 'assert', 'api'):
    put('C15', 'chain-' + m, {'eqs': [['eq', V('X'), V('D1')], ['eq', V('D1'), F('box', V('D2'), [V('D3'), 'k'])], ['multi', V('D2'), A('red')], ['eq', V('D3'), F('f', V('D2'))]], 'mode': m, 'close_after': 0},
        'chain through variables, inner variables bound after the structure (seeded changes C15-a, C15-b)')
# ---- C16
for i, (lit, src) in enumerate([(A("dogs'"), "'dogs\\''"), (A("'"), "'\\''"), (A('a\nb'), "'a\nb'"), (A('é☃'), "'é☃'"), (T(7), '007'), (F('hello world', 'a', [1, 2]), "'hello world'(a, [1,2])"),
                                (('f', '.', (A('red'), V('T0'))), "[red | VT0]"), (mklist([]), '[]'), (F('f', mklist([]), '[]'), "f([], '[]')")]):
    for pos in ('fact', 'body'):
        put('C16', 'literal-%02d-%s' % (i, pos), {'lit': lit, 'src': src, 'position': pos, 'style': i}, 'literal named in the property / seeded changes C16-a, C16-b')
# ---- C02
X, Y, Z = V(0), V(1), V(2)
for i, (st, a, b) in enumerate([([], F('f', X, 'b'), F('f', 'a', Y)), ([[X, Y]], Y, X), ([[X, Y], [Y, Z]], Z, X), ([], F('f', X, Y), F('f', Y, X)), ([[X, Y], [Y, A('a')]], X, A('c')),
                                 ([], F('f', 'a'), F('f', 'a', 'b')), ([], ('s', 'a'), A('a')), ([], mklist([A('k')]), mklist([A('k'), A('m')])), ([[X, F('g', Y)]], F('f', X, 2), F('f', Z, Z))]):
    put('C02', 'pair-%02d' % i, {'stack': st, 't1': a, 't2': b}, 'hand-picked pair: symmetry, chains, arity mismatch, Python constants (seeded changes C02-a, C02-b)')
print('regressions written')

#!/venv/bin/python
"""Runs checks against seeded breakages.  For every /verif/seeded/<name>/ (patch.diff, meta.json) a scratch copy
of /repo's working tree is made OUTSIDE /repo and /verif, the patch applied, and the listed checks run with
VERIF_REPO pointing at the copy (evidence and replay files go to a scratch directory, so the committed evidence
is untouched).  Expected: exit 1 with a VIOLATION line.
usage: sensitivity.py [--tier quick] [--checks C01,C05] [--jobs 4] [name ...]"""
import os, sys, json, subprocess, tempfile, shutil, argparse, concurrent.futures, time

VERIF = os.path.dirname(os.path.dirname(os.path.abspath(__file__)))

def run_one(name, checks, tier, seed):
    d = os.path.join(VERIF, 'seeded', name)
    meta = json.load(open(os.path.join(d, 'meta.json')))
    if meta.get('status') == 'rejected' and not checks:
        return name, {}
    checks = checks or meta.get('checks') or [meta['property']]
    base = tempfile.mkdtemp(prefix='sens-%s-' % name)
    res = {}
    try:
        repo = os.path.join(base, 'repo')
        subprocess.run(['rsync', '-a', '--exclude', '.git', '--exclude', '__pycache__', '/repo/', repo + '/'], check=True)
        p = subprocess.run(['git', 'apply', '--unsafe-paths', '--directory', repo, os.path.join(d, 'patch.diff')],
                           cwd=base, stdout=subprocess.PIPE, stderr=subprocess.STDOUT)
        if p.returncode != 0:
            p = subprocess.run(['patch', '-p1', '-d', repo, '-i', os.path.join(d, 'patch.diff')], stdout=subprocess.PIPE, stderr=subprocess.STDOUT)
            if p.returncode != 0:
                return name, {'error': 'patch does not apply: ' + p.stdout.decode()[-300:]}
        for c in checks:
            env = dict(os.environ, VERIF_REPO=repo, VERIF_EVIDENCE_DIR=os.path.join(base, 'ev'),
                       VERIF_REPLAY_DIR=os.path.join(base, 'rp'), VERIF_SEED=str(seed))
            t0 = time.time()
            p = subprocess.run([os.path.join(VERIF, 'check'), c, '--tier', tier], cwd=VERIF, env=env,
                               stdout=subprocess.PIPE, stderr=subprocess.STDOUT)
            out = p.stdout.decode('utf8', 'replace')
            if p.returncode == 2:
                open('/tmp/sens-%s-%s.log' % (name, c), 'w').write(out)
            sigs = [l.strip() for l in out.splitlines() if l.strip().startswith('signature:')]
            res[c] = {'rc': p.returncode, 'caught': p.returncode == 1 and 'VIOLATION property=' in out,
                      'wall': round(time.time() - t0, 1), 'signatures': sigs[:3],
                      'tail': '' if p.returncode == 1 else out[-1500:]}
    finally:
        shutil.rmtree(base, ignore_errors=True)
    return name, res

def main():
    ap = argparse.ArgumentParser()
    ap.add_argument('names', nargs='*')
    ap.add_argument('--tier', default='quick')
    ap.add_argument('--checks', default='')
    ap.add_argument('--jobs', type=int, default=2)
    ap.add_argument('--seed', type=int, default=1)
    a = ap.parse_args()
    names = a.names or sorted(n for n in os.listdir(os.path.join(VERIF, 'seeded')) if os.path.exists(os.path.join(VERIF, 'seeded', n, 'meta.json')))
    checks = [c for c in a.checks.split(',') if c]
    missed = 0
    with concurrent.futures.ThreadPoolExecutor(a.jobs) as ex:
        for name, res in ex.map(lambda n: run_one(n, checks, a.tier, a.seed), names):
            for c, r in res.items() if 'error' not in res else []:
                print('%-10s %-4s %s  %5.1fs  %s' % (name, c, 'CAUGHT' if r['caught'] else 'MISSED rc=%d' % r['rc'], r['wall'], '; '.join(r['signatures']) or r['tail'].replace('\n', ' | ')[-1200:]), flush=True)
                missed += 0 if r['caught'] else 1
            if 'error' in res:
                print('%-10s ERROR %s' % (name, res['error']), flush=True)
                missed += 1
    return 1 if missed else 0

if __name__ == '__main__':
    sys.exit(main())

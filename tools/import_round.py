#!/venv/bin/python
"""Imports the candidates of one sub-agent round: <outdir>/<Cnn>/{a,b}/{patch.diff,demo.py,notes.md} are confirmed with
tools/verify_seeded.py (scratch worktree outside /repo and /verif) and, when confirmed, copied to
/verif/seeded/<Cnn>-<suffix>/ with a meta.json.   usage: import_round.py <outdir> <round> <suffix-for-a> <suffix-for-b> [Cnn ...]"""
import os, sys, json, shutil, subprocess
VERIF = os.path.dirname(os.path.dirname(os.path.abspath(__file__)))
sys.path.insert(0, os.path.join(VERIF, 'tools'))
import verify_seeded

def main():
    outdir, rnd, sa, sb = sys.argv[1], int(sys.argv[2]), sys.argv[3], sys.argv[4]
    props = {json.loads(l)['id']: json.loads(l) for l in open(os.path.join(VERIF, 'properties.jsonl'))}
    ids = sys.argv[5:] or sorted(os.listdir(outdir))
    head = subprocess.run(['git', '-C', '/repo', 'rev-parse', '--short', 'HEAD'], stdout=subprocess.PIPE).stdout.decode().strip()
    for pid in ids:
        for k, suf in (('a', sa), ('b', sb)):
            d = os.path.join(outdir, pid, k)
            dst = os.path.join(VERIF, 'seeded', '%s-%s' % (pid, suf))
            if os.path.exists(dst) or not os.path.exists(os.path.join(d, 'patch.diff')) or not os.path.exists(os.path.join(d, 'demo.py')):
                continue
            r = verify_seeded.main([d])[os.path.abspath(d)]
            if not r['confirmed']:
                continue
            os.makedirs(dst)
            for f in ('patch.diff', 'demo.py', 'notes.md'):
                if os.path.exists(os.path.join(d, f)):
                    shutil.copy(os.path.join(d, f), dst)
            meta = {'property': pid, 'property_title': props[pid]['title'], 'round': rnd,
                    'origin': 'independent sub-agent, round %d: given only the property text, one-line descriptions of the changes of earlier rounds to avoid, and a scratch worktree of /repo (nothing from /verif)' % rnd,
                    'needs_to_manifest': 'see notes.md',
                    'confirmed': 'tools/verify_seeded.py: scratch worktree of /repo HEAD (%s); demo exits 0 without the patch; with the patch the 61 repository tests pass and the demo exits 1' % head,
                    'checks': [pid]}
            with open(os.path.join(dst, 'meta.json'), 'w') as f:
                json.dump(meta, f, indent=1)
                f.write('\n')

if __name__ == '__main__':
    main()

"""Adapter to the code under test.  Imports yldprolog from ${VERIF_REPO:-/repo}/src (the current working tree;
pure Python, nothing to build), provides a step-budgeted engine, conversion between reference terms and engine
terms, and a registry of every engine Variable ever constructed (harness-side wrapper, no repository hook)."""
import io
import os
import sys
import weakref
import contextlib

REPO = os.environ.get('VERIF_REPO', '/repo')
_src = os.path.join(REPO, 'src')
if _src not in sys.path:
    sys.path.insert(0, _src)
sys.dont_write_bytecode = True

import yldprolog.engine as engine            # noqa: E402
import yldprolog.compiler as compiler        # noqa: E402
from yldprolog.engine import YP, Variable, Atom, Functor, get_value, to_python   # noqa: E402

from .terms import Budget, term_vars         # noqa: E402

assert os.path.realpath(engine.__file__).startswith(os.path.realpath(_src)), \
    'yldprolog imported from %s, expected %s' % (engine.__file__, _src)

class ImplBudget(Budget):
    """the implementation made more than 10x + 500 the calls the reference needed: it does not terminate where the
    reference did"""


class ImplWork(Budget):
    """the implementation's term copying exceeded its work budget (exponential tree copying): the case is discarded as
    too expensive, it is NOT evidence of a wrong answer"""


# ---------------------------------------------------------------- variable registry
REGISTRY = weakref.WeakSet()
_orig_var_init = Variable.__init__


def _var_init(self, *a, **k):
    _orig_var_init(self, *a, **k)
    REGISTRY.add(self)


Variable.__init__ = _var_init


def bound_variables():
    """every live engine Variable that is currently bound (get_value(v) is not v)"""
    return [v for v in list(REGISTRY) if get_value(v) is not v]


# ---------------------------------------------------------------- work counter (harness side, like the registry)
# The engine copies terms as trees; a program that doubles a term per recursion level makes it do exponential work
# within very few calls.  Count Functor.get_value calls so that such a run ends in ImplBudget instead of a stall.
WORK = {'n': 0, 'limit': None}
_orig_functor_get_value = Functor.get_value


def _functor_get_value(self):
    WORK['n'] += 1
    if WORK['limit'] is not None and WORK['n'] > WORK['limit']:
        WORK['n'] = 0
        raise ImplWork('term-copying work budget')
    return _orig_functor_get_value(self)


Functor.get_value = _functor_get_value


@contextlib.contextmanager
def without_work_counter():
    """the counting wrapper costs one Python frame per level of a nested term; where the number of frames IS the
    subject (C17), fixed programs whose cost is known run on the engine's own method"""
    Functor.get_value = _orig_functor_get_value
    try:
        yield
    finally:
        Functor.get_value = _functor_get_value


class Ctx:
    debug_filename = ''
    debug_parser = False
    debug_generator = False
    current_source_file = ''
    outf = None



class BudgetYP(YP):
    """YP whose query() counts calls and raises ImplBudget after `budget` calls: turns non-termination of the
    implementation where the reference terminated into a deterministic verdict."""

    def __init__(self, budget=200000):
        self._n = 0
        self._budget = budget
        WORK['n'] = 0
        WORK['limit'] = 100 * budget + 200000
        super().__init__()

    def query(self, name, args):
        self._n += 1
        if self._n > self._budget:
            raise ImplBudget('impl steps')
        return super().query(name, args)


@contextlib.contextmanager
def quiet_stderr():
    """ANTLR's console listener prints to sys.stderr; capture it (not in the thread tier of C04: swapping a
    process-global is not thread-safe)."""
    import threading
    if threading.active_count() > 2:
        yield sys.stderr
        return
    old = sys.stderr
    sys.stderr = io.StringIO()
    try:
        yield sys.stderr
    finally:
        sys.stderr = old


def compile_text(text, ctx=Ctx):
    with quiet_stderr():
        return compiler.compile_prolog_from_string(text, ctx)


def to_engine(yp, t, vmap):
    k = t[0]
    if k == 'v':
        if t not in vmap:
            vmap[t] = yp.variable()
        return vmap[t]
    if k == 'a':
        return yp.atom(t[1])
    if k == 'i':
        return int(str(t[1]))      # a new object for every occurrence (equal integers need not be identical objects)
    if k == 's':          # python str constant (C02 only)
        return ''.join(list(t[1]))
    if k == 'k':          # other python constant, given by its repr: None, 2.5, b'x', a tuple
        return PYCONSTS[t[1]]
    if k == 'f':
        return yp.functor(t[1], [to_engine(yp, a, vmap) for a in t[2]])
    raise ValueError(t)


PYCONSTS = {'None': None, '2.5': 2.5, "b'x'": b'x', "('t', 1)": ('t', 1), '-3': -3}


def _const(x):
    r = repr(x)
    if r in PYCONSTS and type(PYCONSTS[r]) is type(x):
        return ('k', r)
    return ('pyconst', r)


def reify(x, seen, depth=0):
    """engine term -> reference term; unbound variables numbered by first occurrence of their identity in
    `seen` (shared across one observation so aliasing is part of the value)."""
    if depth > 3000:
        raise Budget('reify depth')
    x = get_value(x)
    if isinstance(x, Variable):
        if id(x) not in seen:
            seen[id(x)] = ('v', len(seen))
        return seen[id(x)]
    if isinstance(x, Atom):
        return ('a', x.name())
    if isinstance(x, Functor):
        return ('f', x._name, tuple(reify(a, seen, depth + 1) for a in x._args))
    if isinstance(x, bool):
        return ('pyconst', repr(x))
    if isinstance(x, int):
        return ('i', x)
    if isinstance(x, str):
        return ('s', x)
    return _const(x)


def reify_raw(x, seen, depth=0):
    """like reify but WITHOUT dereferencing through get_value at inner levels: walks the object graph as
    returned (used to inspect saved get_value results after backtracking, C15)."""
    if depth > 3000:
        raise Budget('reify depth')
    if isinstance(x, Variable):
        if x._is_bound:
            return ('boundvar', reify_raw(x._value, seen, depth + 1))
        if id(x) not in seen:
            seen[id(x)] = ('v', len(seen))
        return seen[id(x)]
    if isinstance(x, Atom):
        return ('a', x.name())
    if isinstance(x, Functor):
        return ('f', x._name, tuple(reify_raw(a, seen, depth + 1) for a in x._args))
    if isinstance(x, bool):
        return ('pyconst', repr(x))
    if isinstance(x, int):
        return ('i', x)
    if isinstance(x, str):
        return ('s', x)
    return ('pyconst', repr(x))


def goal_parts(q):
    if q[0] == 'a':
        return q[1], ()
    return q[1], q[2]


def host_noise(n, tag='pad'):
    """what an embedding program does to its engine while a query is suspended, without any meaning in Prolog: it interns
    n atom names nobody uses, makes variables and builds terms from them.  Returns the callback for run_query(between=)"""
    count = [0]

    def between(yp):
        count[0] += 1
        k = count[0]
        made = [yp.atom('%s_%d_%d' % (tag, k, i)) for i in range(n)]
        v = yp.variable()
        if made:
            yp.functor('pad_holder', [made[0], v, yp.listpair(made[-1], yp.ATOM_NIL)])
    return between


def run_query(yp, q, limit, vmap=None, builder=None, between=None):
    """enumerate query term q on engine yp; returns (status, answers) with answers canonical like R.query:
    status 'done' (exhausted) or 'limit'.  between(yp) is called after the query object is made and after every answer"""
    name, args = goal_parts(q)
    vmap = {} if vmap is None else vmap
    eargs = [to_engine(builder or yp, a, vmap) for a in args]
    out = []
    status = 'done'
    g = yp.query(name, eargs)
    if between:
        between(yp)
    try:
        for _ in g:
            seen = {}
            if q[0] == 'a':
                out.append(q)
            else:
                out.append(('f', name, tuple(reify(a, seen) for a in eargs)))
            if len(out) >= limit:
                status = 'limit'
                break
            if between:
                between(yp)
    finally:
        g.close()
    return status, out


def read_db(yp, keys):
    """contents of the fact store for the given (name, arity) keys, read with all-variables queries;
    canonical like Interp.db()"""
    from .terms import canon
    out = []
    for name, n in sorted(set(tuple(k) for k in keys)):
        vs = [yp.variable() for _ in range(n)]
        facts = []
        g = yp.match_dynamic(yp.atom(name), vs)
        for _ in g:
            seen = {}
            facts.append(canon(('f', name, tuple(reify(v, seen) for v in vs)) if n else ('a', name)))
        if facts:
            out.append([[name, n], facts])
    return out


def exc_signature(e):
    """(exception type, innermost frame inside yldprolog as module.function) - stable under shrinking"""
    import traceback
    tb = traceback.extract_tb(e.__traceback__)
    where = '?'
    for fr in reversed(tb):
        fn = fr.filename.replace('\\', '/')
        if '/yldprolog/' in fn:
            where = os.path.splitext(os.path.basename(fn))[0] + '.' + fr.name
            break
        if fn.startswith('<') or fn == '':
            where = 'generated.' + fr.name
            break
    return '%s@%s' % (type(e).__name__, where)


def flat(xs):
    """ITERATIVE pre-order token list of engine terms (no Python recursion, no get_value): usable as a projection
    function under a lowered recursion limit.  Unbound variables are numbered by first occurrence."""
    out = []
    seen = {}
    stack = list(reversed(list(xs)))
    while stack:
        x = stack.pop()
        while isinstance(x, Variable) and x._is_bound:
            x = x._value
        if isinstance(x, Variable):
            if id(x) not in seen:
                seen[id(x)] = len(seen)
            out.append(('v', seen[id(x)]))
        elif isinstance(x, Atom):
            out.append(('a', x._name))
        elif isinstance(x, Functor):
            out.append(('f', x._name, len(x._args)))
            stack.extend(reversed(x._args))
        elif isinstance(x, bool):
            out.append(('pyconst', repr(x)))
        elif isinstance(x, int):
            out.append(('i', x))
        else:
            out.append(('pyconst', repr(x)))
    return tuple(out)


def flat_ref(ts):
    """the same token list for (canonical) reference terms"""
    out = []
    seen = {}
    stack = list(reversed(list(ts)))
    while stack:
        t = stack.pop()
        if t[0] == 'v':
            if t not in seen:
                seen[t] = len(seen)
            out.append(('v', seen[t]))
        elif t[0] == 'f':
            out.append(('f', t[1], len(t[2])))
            stack.extend(reversed(t[2]))
        else:
            out.append(t)
    return tuple(out)

"""Generic runner: oracle self-test -> replay tier -> known findings -> sharded generated search (+ bounded
exhaustive enumeration) -> evidence.  One instance per property (see props/*.py)."""
import os
import sys
import json
import time
import hashlib
import traceback
import threading
import collections
import concurrent.futures
import multiprocessing

VERIF = os.path.dirname(os.path.dirname(os.path.abspath(__file__)))
RECURSION_LIMIT = 40000      # Python frames; worker threads have a 512 MB C stack


class HarnessError(Exception):
    """trouble in the machinery itself (oracle self-test failed, ...): exit 2, never a violation"""


class Outcome:
    __slots__ = ('status', 'nontrivial', 'classes', 'signature', 'detail', 'reason')

    def __init__(self, status, nontrivial=False, classes=(), signature='', detail=None, reason=''):
        self.status = status            # 'ok' | 'discard' | 'fail'
        self.nontrivial = nontrivial
        self.classes = list(classes)
        self.signature = signature
        self.detail = detail
        self.reason = reason


def OK(nontrivial=False, classes=()):
    return Outcome('ok', nontrivial, classes)


def DISCARD(reason, classes=()):
    return Outcome('discard', False, classes, reason=reason)


def FAIL(signature, detail=None, classes=()):
    return Outcome('fail', False, classes, signature=signature, detail=detail)


class Violation(Exception):
    pass


class Prop:
    """base class of a property check"""
    id = '?'
    title = ''
    rule = ''
    technique = ''
    assumptions = []
    genome = {'quick': 300, 'thorough': 300}
    cases = {'quick': 1000, 'thorough': 20000}
    shards = {'quick': 8, 'thorough': 16}
    shrink_budget = 400           # max decide() calls of the structural shrinker
    shrink_seconds = 25           # and its wall-clock cap per reported violation
    sample_cap = 12
    case_timeout = 300            # seconds; outer safety net only: a worker stuck that long is killed -> exit 2 (inconclusive)

    def selftest(self, tier):
        """oracle self-tests; returns a dict for the evidence; raises HarnessError"""
        return {}

    def decode(self, src):
        raise NotImplementedError

    def decide(self, case):
        raise NotImplementedError

    def enumerate(self, tier):
        """bounded-exhaustive sub-scope: returns (description, list of cases) or None"""
        return None

    def shrink_candidates(self, case):
        """smaller variants of a failing case (structural shrink after Hypothesis' own)"""
        return []

    def known_match(self, name, case):
        return False

    def case_key(self, case):
        return json.dumps(case, sort_keys=True, default=str)

    def sample_view(self, case):
        """what is written to evidence samples for a case"""
        return case

    def extra_checks(self, tier, seed):
        """additional deterministic checks run once per run in the parent (returns list of (case, Outcome))"""
        return []


# ---------------------------------------------------------------- known findings
def load_known(prop_id):
    path = os.path.join(VERIF, 'KNOWN_FINDINGS.txt')
    out = []
    if not os.path.exists(path):
        return out
    for line in open(path, encoding='utf8'):
        line = line.strip()
        if not line.startswith('finding:'):
            continue
        fields = {}
        rest = []
        for tok in line[len('finding:'):].split():
            if '=' in tok and not rest and tok.split('=', 1)[0] in ('property', 'match', 'signature', 'replay'):
                k, v = tok.split('=', 1)
                fields[k] = v
            else:
                rest.append(tok)
        if fields.get('property') == prop_id:
            fields['what'] = ' '.join(rest)
            out.append(fields)
    return out


def is_known(prop, known, case, out):
    for k in known:
        if k.get('signature') == out.signature and prop.known_match(k.get('match', ''), case):
            return k
    return None


# ---------------------------------------------------------------- statistics
class Stats:
    def __init__(self):
        self.evaluations = 0
        self.discards = collections.Counter()
        self.classes = collections.Counter()
        self.nontrivial = set()
        self.samples = {}            # class label -> case view
        self.excluded_known = 0
        self.exhausted_genomes = 0
        self.unreproducible = []
        self.frozen = False

    def add(self, prop, case, out):
        if self.frozen:
            return
        if out.status == 'discard':
            self.discards[out.reason] += 1
            return
        self.evaluations += 1
        for c in out.classes:
            self.classes[c] += 1
        if out.nontrivial:
            h = hashlib.sha1(prop.case_key(case).encode('utf8', 'backslashreplace')).hexdigest()[:16]
            if h not in self.nontrivial:
                self.nontrivial.add(h)
                label = 'nontrivial:' + (sorted(out.classes)[self.evaluations % len(out.classes)] if out.classes else '')
                if label not in self.samples and len(self.samples) < 40:
                    self.samples[label] = prop.sample_view(case)
        elif 'trivial' not in self.samples:
            self.samples['trivial'] = prop.sample_view(case)

    def merge(self, o):
        self.evaluations += o.evaluations
        self.discards.update(o.discards)
        self.classes.update(o.classes)
        self.nontrivial |= o.nontrivial
        for k, v in o.samples.items():
            self.samples.setdefault(k, v)
        self.excluded_known += o.excluded_known
        self.exhausted_genomes += o.exhausted_genomes
        self.unreproducible.extend(o.unreproducible[:5])


def derive_seed(seed, prop_id, shard):
    h = hashlib.sha256(('%d/%s/%d' % (seed, prop_id, shard)).encode()).digest()
    return int.from_bytes(h[:8], 'big')


# ---------------------------------------------------------------- worker side
def _in_big_thread(fn, *args):
    """run fn in a thread with a large C stack and a high recursion limit; re-raise its exception"""
    box = {}

    def target():
        try:
            box['r'] = fn(*args)
        except BaseException as e:     # noqa
            box['e'] = e
            box['tb'] = traceback.format_exc()
    threading.stack_size(512 * 1024 * 1024)
    sys.setrecursionlimit(RECURSION_LIMIT)
    t = threading.Thread(target=target)
    t.start()
    t.join()
    if 'e' in box:
        raise HarnessError('worker failed: %s\n%s' % (box['e'], box['tb']))
    return box['r']


def _shard_body(prop, tier, seed, shard, n_examples, genome_len, known):
    from hypothesis import given, settings, seed as hseed, HealthCheck, Phase, Verbosity, strategies as st
    from .gen import Src
    stats = Stats()
    holder = {}
    recent = collections.deque(maxlen=150)     # the cases decided just before a failure (sequence replay)

    import faulthandler
    trace_dir = os.environ.get('VERIF_TRACE_DIR')

    def body(data):
        src = Src(data)
        case = prop.decode(src)
        if trace_dir:
            with open(os.path.join(trace_dir, 'shard-%d.json' % shard), 'w') as f:
                json.dump({'case': case}, f, default=str)
        if not stats.frozen:
            recent.append(case)
        faulthandler.dump_traceback_later(prop.case_timeout, exit=True)
        if getattr(src, 'struct_exhausted', src.exhausted):
            stats.exhausted_genomes += 0 if stats.frozen else 1
        # Hypothesis sets the interpreter's recursion limit to (current depth + 2000) around the test function;
        # the searches we compare may legitimately need more ("within the Python recursion depth the search
        # needs"), and the replay path runs without Hypothesis: use one fixed, generous limit everywhere.
        old_limit = sys.getrecursionlimit()
        sys.setrecursionlimit(RECURSION_LIMIT)
        try:
            out = prop.decide(case)
        finally:
            sys.setrecursionlimit(old_limit)
            faulthandler.cancel_dump_traceback_later()
        stats.add(prop, case, out)
        if out.status == 'fail':
            k = is_known(prop, known, case, out)
            if k is not None:
                if not stats.frozen:
                    stats.excluded_known += 1
                return
            if 'first' not in holder:
                # a failure counts only if it reproduces in a FRESH process: alone, or after the cases that preceded it
                # here (state left behind by earlier cases).  Otherwise it is recorded and the search goes on.
                prelude = list(recent)[:-1]
                if confirm_case(prop, case):
                    prelude = []
                elif not (prelude and confirm_case(prop, case, prelude)):
                    stats.unreproducible.append({'signature': out.signature, 'case': prop.sample_view(case)})
                    return
                holder['first'] = (case, out, prelude)
            stats.frozen = True
            holder['case'] = case
            holder['out'] = out
            raise Violation(out.signature)

    test = hseed(derive_seed(seed, prop.id, shard))(
        settings(max_examples=n_examples, database=None, deadline=None, report_multiple_bugs=False,
                 suppress_health_check=list(HealthCheck), verbosity=Verbosity.quiet,
                 phases=([Phase.generate] if tier == 'quick' else [Phase.generate, Phase.shrink]))(
            given(st.binary(min_size=genome_len, max_size=genome_len))(body)))
    failure = None
    try:
        test()
    except Violation:
        # the (confirmed) first failure with its prelude; if Hypothesis' shrinker found a smaller case, that one goes
        # first - the parent confirms it in a fresh process and falls back to the first failure otherwise
        failure = holder['first']
        if prop.case_key(holder['case']) != prop.case_key(holder['first'][0]):
            failure = (holder['case'], holder['out'], [], holder['first'])
    except Exception as e:      # noqa
        if 'first' in holder and 'Flaky' in type(e).__name__:
            # the failure did not recur when Hypothesis re-ran the same input: it depends on state left behind by
            # earlier cases in this process.  Keep the first failing case together with the cases before it.
            failure = holder['first']
        else:
            raise
    return stats, failure


def run_shard(args):
    prop, tier, seed, shard, n_examples, genome_len, known = args
    import faulthandler
    faulthandler.enable()
    devnull = open(os.devnull, 'w')
    os.dup2(devnull.fileno(), 2) if os.environ.get('VERIF_DEBUG') is None else None
    t0 = time.time()
    stats, failure = _in_big_thread(_shard_body, prop, tier, seed, shard, n_examples, genome_len, known)
    fail_ser = None
    if failure is not None:
        case, out, prelude = failure[:3]
        fail_ser = (case, out.signature, out.detail, prelude)
        if len(failure) > 3:
            fc, fo, fp = failure[3]
            fail_ser = fail_ser + ((fc, fo.signature, fo.detail, fp),)
    return stats, fail_ser, time.time() - t0


def _enum_chunk(args):
    prop, chunk, known = args

    def work():
        stats = Stats()
        fails = []
        import faulthandler
        for case in chunk:
            faulthandler.dump_traceback_later(prop.case_timeout, exit=True)
            try:
                out = prop.decide(case)
            finally:
                faulthandler.cancel_dump_traceback_later()
            stats.add(prop, case, out)
            if out.status == 'fail':
                if is_known(prop, known, case, out) is not None:
                    stats.excluded_known += 1
                else:
                    fails.append((case, out.signature, out.detail, out.classes))
                    if len(fails) >= 3:
                        break
        return stats, fails
    if os.environ.get('VERIF_DEBUG') is None:
        devnull = open(os.devnull, 'w')
        os.dup2(devnull.fileno(), 2)
    return _in_big_thread(work)


# ---------------------------------------------------------------- parent side
def structural_shrink(prop, case, signature, known):
    """greedy: keep replacing the case by the first smaller candidate that still fails (any unknown failure)"""
    budget = prop.shrink_budget
    cur = case
    cur_out = None
    improved = True
    t_end = time.time() + prop.shrink_seconds      # affects only how small the reported case is, never the verdict
    while improved and budget > 0:
        improved = False
        for cand in prop.shrink_candidates(cur):
            budget -= 1
            if budget <= 0 or time.time() > t_end:
                budget = 0
                break
            try:
                out = prop.decide(cand)
            except Exception:     # noqa
                continue
            if out.status == 'fail' and is_known(prop, known, cand, out) is None:
                cur, cur_out = cand, out
                improved = True
                break
    return cur, cur_out


def confirm_case(prop, case, prelude=None):
    """True if the case fails in a fresh interpreter too (after deciding the prelude cases first, if given)"""
    import tempfile
    fd, path = tempfile.mkstemp(prefix='verif-confirm-', suffix='.json')
    try:
        with os.fdopen(fd, 'w', encoding='utf8') as f:
            json.dump({'case': case, 'prelude': prelude or []}, f, default=str)
        return confirm_replay(prop, path)
    finally:
        os.unlink(path)


def confirm_replay(prop, path):
    """re-decides a replay file in a fresh interpreter; True if it fails there too"""
    import subprocess
    full = path if os.path.isabs(path) else os.path.join(VERIF, path)
    env = dict(os.environ, PYTHONHASHSEED='0')
    try:
        p = subprocess.run([sys.executable, '-X', 'faulthandler', os.path.join(VERIF, 'harness', 'main.py'), prop.id, '--replay', full],
                           stdout=subprocess.PIPE, stderr=subprocess.STDOUT, env=env, cwd=VERIF, timeout=900)
    except subprocess.TimeoutExpired:
        return False
    if p.returncode not in (0, 1):
        # the confirmation run itself broke (harness error, crash): that is not "did not reproduce"
        raise HarnessError('confirmation run of %s exited %d: %s' % (path, p.returncode, p.stdout.decode('utf8', 'replace')[-600:]))
    return p.returncode == 1 and b'VIOLATION property=' in p.stdout


def write_replay(prop, case, signature, detail, seed, tier, prelude=None):
    d = os.path.join(os.environ.get('VERIF_REPLAY_DIR') or os.path.join(VERIF, 'replays'), prop.id)
    os.makedirs(d, exist_ok=True)
    rec = {'property': prop.id, 'signature': signature, 'detail': detail, 'seed': seed, 'tier': tier, 'case': case}
    if prelude:
        rec['prelude'] = prelude
        rec['note'] = 'the failure depends on state left behind by earlier cases in the same process: replaying decides the prelude cases first'
    blob = json.dumps(rec, indent=1, sort_keys=True, default=str, ensure_ascii=True)
    h = hashlib.sha1(blob.encode()).hexdigest()[:12]
    path = os.path.join(d, h + '.json')
    with open(path, 'w', encoding='utf8') as f:
        f.write(blob + '\n')
    return os.path.relpath(path, VERIF) if path.startswith(VERIF + os.sep) else path


def load_case(path):
    with open(path, encoding='utf8') as f:
        d = json.load(f)
    return d['case'] if isinstance(d, dict) and 'case' in d else d


def write_evidence(prop, tier, seed, level, coverage, wall, violations):
    d = os.environ.get('VERIF_EVIDENCE_DIR') or os.path.join(VERIF, 'evidence')
    os.makedirs(d, exist_ok=True)
    ev = {'property_id': prop.id, 'tier': tier, 'seed': seed, 'level': level, 'coverage': coverage,
          'assumptions': list(prop.assumptions), 'wall_s': round(wall, 2), 'violations': violations}
    tmp = os.path.join(d, prop.id + '.json.tmp')
    with open(tmp, 'w', encoding='utf8') as f:
        json.dump(ev, f, indent=1, sort_keys=True, default=str, ensure_ascii=True)
        f.write('\n')
    os.replace(tmp, os.path.join(d, prop.id + '.json'))


def run_property(prop, tier, seed, replay=None):
    t0 = time.time()
    known = load_known(prop.id)
    if replay is not None:
        case = load_case(replay)
        with open(replay, encoding='utf8') as f:
            blob = json.load(f)
        for pc in (blob.get('prelude') or []) if isinstance(blob, dict) else []:
            try:
                _in_big_thread(prop.decide, pc)      # state left behind by earlier cases of the same process
            except HarnessError:
                pass
        out = _in_big_thread(prop.decide, case)
        print('replay %s: %s %s' % (replay, out.status, out.signature or out.reason))
        if out.status == 'fail':
            print(json.dumps(out.detail, indent=1, default=str)[:4000])
            print('VIOLATION property=%s replay=%s' % (prop.id, replay))
            return 1
        return 0

    violations = []      # (case, signature, detail)
    preludes = {}        # case key -> cases decided before it in the same process
    fallbacks = {}       # case key of a shrunk failure -> the first (confirmed) failure of that shard
    # the phases that run in this (parent) process have no per-case watchdog of their own: a phase that does not end
    # is a harness error (exit 2), never a verdict
    phase = {'name': 'self-test'}
    limit_s = 1800 if tier == 'quick' else 4 * 3600

    def _stuck():
        sys.stdout.write('HARNESS-ERROR %s: phase %r of the parent process did not end within %d s\n' % (prop.id, phase['name'], limit_s))
        sys.stdout.flush()
        try:
            import faulthandler
            faulthandler.dump_traceback(all_threads=True)
        finally:
            os._exit(2)
    import threading as _threading
    wd = _threading.Timer(limit_s, _stuck)
    wd.daemon = True
    wd.start()
    # 1. oracle self-test
    selfinfo = _in_big_thread(prop.selftest, tier)
    phase['name'] = 'regression replays'
    # 2. replay tier + 3. known findings
    stats = Stats()
    regdir = os.path.join(VERIF, 'regressions', prop.id)
    nreg = 0
    known_seen = []
    if os.path.isdir(regdir):
        for fn in sorted(os.listdir(regdir)):
            if not fn.endswith('.json'):
                continue
            case = load_case(os.path.join(regdir, fn))
            out = _in_big_thread(prop.decide, case)
            nreg += 1
            stats.add(prop, case, out)
            if out.status == 'fail':
                k = is_known(prop, known, case, out)
                if k is not None:
                    known_seen.append(k)
                else:
                    violations.append((case, out.signature, out.detail))
    for k in known:
        print('KNOWN-FINDING: property=%s %s' % (prop.id, k.get('what', '')))
    # extra deterministic checks
    phase['name'] = 'extra checks'
    for case, out in _in_big_thread(prop.extra_checks, tier, seed):
        stats.add(prop, case, out)
        if out.status == 'fail' and is_known(prop, known, case, out) is None:
            violations.append((case, out.signature, out.detail))
    # 4. generated search, sharded
    wd.cancel()
    nshards = prop.shards[tier]
    total = prop.cases[tier]
    per = max(1, total // nshards)
    glen = prop.genome[tier]
    ctx = multiprocessing.get_context('fork')
    shard_seeds = [derive_seed(seed, prop.id, i) for i in range(nshards)]
    enum_info = None
    if total > 0:
        with concurrent.futures.ProcessPoolExecutor(max_workers=min(16, nshards), mp_context=ctx) as ex:
            futs = [ex.submit(run_shard, (prop, tier, seed, i, per, glen, known)) for i in range(nshards)]
            for f in futs:
                try:
                    st_, fail, dt = f.result()
                except concurrent.futures.process.BrokenProcessPool as e:
                    raise HarnessError('a worker process died: %s' % e)
                stats.merge(st_)
                if fail is not None:
                    violations.append(fail[:3])
                    preludes[json.dumps(fail[0], sort_keys=True, default=str)] = fail[3]
                    if len(fail) > 4:
                        fallbacks[json.dumps(fail[0], sort_keys=True, default=str)] = fail[4]
    # bounded-exhaustive enumeration
    en = prop.enumerate(tier)
    if en is not None:
        desc, cases = en
        cases = list(cases)
        nchunk = 64
        chunks = [cases[i::nchunk] for i in range(nchunk)]
        try:
            with concurrent.futures.ProcessPoolExecutor(max_workers=16, mp_context=ctx) as ex:
                for st_, fails in ex.map(_enum_chunk, [(prop, c, known) for c in chunks if c]):
                    stats.merge(st_)
                    for fl in fails:
                        violations.append(fl[:3])
        except concurrent.futures.process.BrokenProcessPool as e:
            raise HarnessError('a worker process died during the enumeration (watchdog or crash): %s' % e)
        enum_info = {'scope': desc, 'cases': len(cases), 'exhaustive': True}
    # shrink + report
    rc = 0
    reported = []
    unreproducible = []
    if violations:
        # smallest first; report one per signature (root-cause bucketing), at most 5
        violations.sort(key=lambda v: len(prop.case_key(v[0])))
        seen_sig = set()
        for case, sig, detail in violations:
            if sig in seen_sig:
                continue
            seen_sig.add(sig)
            orig_case, orig_detail = case, detail
            okey = json.dumps(orig_case, sort_keys=True, default=str)
            sig2 = sig
            if not preludes.get(okey):
                # self-contained failure: make it smaller
                try:
                    small, sout = _in_big_thread(structural_shrink, prop, case, sig, known)
                    if sout is not None:
                        case, sig2, detail = small, sout.signature, sout.detail
                except HarnessError:
                    pass
            if sig2 in seen_sig and sig2 != sig:
                continue
            seen_sig.add(sig2)
            path = write_replay(prop, case, sig2, detail, seed, tier)
            # a reported violation must reproduce from its replay file in a FRESH process
            if not confirm_replay(prop, path):
                okseq = False
                for cand_case, cand_sig, cand_detail, pre in [(orig_case, sig, orig_detail, preludes.get(okey))] + \
                        ([fallbacks[okey]] if okey in fallbacks else []):
                    path2 = write_replay(prop, cand_case, cand_sig, cand_detail, seed, tier, prelude=pre or None)
                    okseq = confirm_replay(prop, path2)
                    if okseq:
                        path, sig2 = path2, cand_sig
                        break
                if not okseq:
                    unreproducible.append({'signature': sig, 'replay': path})
                    print('NOTE property=%s a failure (%s) did not reproduce in a fresh process from %s, alone or after the '
                          'cases that preceded it: not reported as a violation' % (prop.id, sig, path))
                    continue
            reported.append({'signature': sig2, 'replay': path})
            print('VIOLATION property=%s replay=%s' % (prop.id, path))
            print('  signature: %s' % sig2)
            if len(reported) >= 3:
                break
        rc = 1 if reported else 0
    # 5. evidence
    samples = []
    keys = sorted(stats.samples)
    for k in keys[:prop.sample_cap]:
        samples.append({'class': k, 'case': stats.samples[k]})
    coverage = {
        'evaluations': stats.evaluations,
        'distinct_nontrivial': len(stats.nontrivial),
        'rule': prop.rule,
        'samples': samples,
        'classes': dict(sorted(stats.classes.items())),
        'discarded_unspecified': dict(sorted(stats.discards.items())),
        'excluded_known_findings': stats.excluded_known,
        'regression_replays': nreg,
        'genomes_exhausted': stats.exhausted_genomes,
        'shard_seeds': shard_seeds,
        'oracle_selftest': selfinfo,
        'technique': prop.technique,
    }
    if getattr(prop, 'fuzz_info', None):
        coverage['atheris_campaign'] = prop.fuzz_info
    if enum_info:
        coverage['enumeration'] = enum_info
        coverage['exhaustive'] = True
        coverage['explanation'] = 'exhaustive refers to the enumerated sub-scope described under "enumeration"; ' \
                                  'the generated search beside it is a sample'
    if reported:
        coverage['violations_reported'] = reported
    if unreproducible or stats.unreproducible:
        coverage['unreproducible_failures'] = unreproducible + stats.unreproducible[:10]
        coverage['unreproducible_note'] = ('failures that did not recur in a fresh process, alone or after the up to 150 cases '
                                           'that preceded them in their shard: not counted as violations')
    wall = time.time() - t0
    write_evidence(prop, tier, seed, 'exploration', coverage, wall, len(reported))
    print('%s %s seed=%d: evaluations=%d distinct_nontrivial=%d discarded=%d known_excluded=%d violations=%d wall=%.1fs'
          % (prop.id, tier, seed, stats.evaluations, len(stats.nontrivial), sum(stats.discards.values()),
             stats.excluded_known, len(reported), wall))
    if rc == 0 and (stats.evaluations < 1 or len(stats.nontrivial) < 2):
        raise HarnessError('search was vacuous: evaluations=%d nontrivial=%d' % (stats.evaluations, len(stats.nontrivial)))
    ndisc = sum(stats.discards.values())
    if rc == 0 and ndisc > 1.5 * max(1, stats.evaluations):
        # health check of the generator / oracle: a run in which most cases are thrown away tests little (this happened
        # once: a syntax slip in a fixed program text made the compiler refuse 96 % of the C17 cases - and the run was green)
        raise HarnessError('too many discarded cases: %d discarded, %d evaluated (%s)'
                           % (ndisc, stats.evaluations, ', '.join('%s: %d' % kv for kv in sorted(stats.discards.items(), key=lambda kv: -kv[1])[:3])))
    return rc

"""Driver of the atheris campaigns (thorough tier of C10, C11, C12): N processes with different libFuzzer seeds, half
from an empty corpus and half from the repository's sample sources; failures are re-decided deterministically by the
caller.  If atheris cannot be imported / installed the campaign is skipped and the evidence says so."""
import os
import re
import sys
import glob
import json
import shutil
import tempfile
import subprocess
import concurrent.futures
from .runner import VERIF
from . import impl


def ensure_atheris():
    deps = os.path.join(VERIF, '.deps')
    probe = [sys.executable, '-c', 'import sys; sys.path.insert(0, %r); import atheris' % deps]
    if subprocess.run(probe, stdout=subprocess.DEVNULL, stderr=subprocess.DEVNULL).returncode == 0:
        return True
    subprocess.run([sys.executable, '-m', 'pip', 'install', '-q', '--no-index', '--find-links', '/opt/veriftools/wheels', '--target', deps, 'atheris'],
                   stdout=subprocess.DEVNULL, stderr=subprocess.DEVNULL)
    return subprocess.run(probe, stdout=subprocess.DEVNULL, stderr=subprocess.DEVNULL).returncode == 0


def campaign(prop_id, seed, processes=8, runs=12000):
    """returns (info dict for the evidence, list of failing cases)"""
    if not ensure_atheris():
        return {'skipped': 'atheris is not importable and could not be installed from /opt/veriftools/wheels'}, []
    base = tempfile.mkdtemp(prefix='verif-fuzz-')
    try:
        corpus = os.path.join(base, 'corpus')
        os.makedirs(corpus)
        for i, fn in enumerate(sorted(glob.glob(os.path.join(impl.REPO, 'compiler', 'test', '*.prolog')))):
            try:
                data = open(fn, 'rb').read()[:1500]
            except OSError:
                continue
            with open(os.path.join(corpus, 'seed%02d' % i), 'wb') as f:
                f.write(b'\x01' + data)

        def one(i):
            w = os.path.join(base, 'w%d' % i)
            os.makedirs(w)
            own = os.path.join(w, 'corpus')
            os.makedirs(own)
            if i % 2 == 1:
                for fn in os.listdir(corpus):
                    shutil.copy(os.path.join(corpus, fn), own)
            env = dict(os.environ, PYTHONHASHSEED='0', PYTHONDONTWRITEBYTECODE='1')
            p = subprocess.run([sys.executable, os.path.join(VERIF, 'harness', 'fuzz_text.py'), w, prop_id, '-runs=%d' % runs,
                                '-seed=%d' % (seed * 1000 + i + 1), '-max_len=700', '-print_final_stats=1', own],
                               stdout=subprocess.PIPE, stderr=subprocess.STDOUT, env=env, cwd=VERIF)
            out = p.stdout.decode('utf8', 'replace')
            m = re.findall(r'cov: (\d+)', out)
            done = re.search(r'Done (\d+) runs', out)
            st = {}
            try:
                st = json.load(open(os.path.join(w, 'stats.json')))
            except Exception:      # noqa
                pass
            fail = None
            if os.path.exists(os.path.join(w, 'failure.json')):
                fail = json.load(open(os.path.join(w, 'failure.json')))
            herr = None
            if os.path.exists(os.path.join(w, 'harness_error.txt')):
                herr = open(os.path.join(w, 'harness_error.txt')).read()
            return {'process': i, 'corpus': 'repository samples' if i % 2 else 'empty', 'rc': p.returncode,
                    'runs_done': int(done.group(1)) if done else st.get('execs', 0), 'final_cov': int(m[-1]) if m else None,
                    'stats': st, 'tail': out[-300:] if p.returncode not in (0, 77) else ''}, fail, herr
        results = []
        fails = []
        with concurrent.futures.ThreadPoolExecutor(processes) as ex:
            for info, fail, herr in ex.map(one, range(processes)):
                results.append(info)
                if fail:
                    fails.append(fail)
                if herr:
                    from .runner import HarnessError
                    raise HarnessError('oracle self-check failed inside the fuzz target: ' + herr)
        return {'tool': 'atheris (libFuzzer), coverage of yldprolog.yp_prolog_visitor / yp_generator / compiler', 'processes': processes,
                'runs_per_process': runs, 'total_runs': sum(r['runs_done'] or 0 for r in results), 'per_process': results}, fails
    finally:
        shutil.rmtree(base, ignore_errors=True)

"""./check <ID> [--tier quick|thorough] [--replay path]"""
import os
import sys


def main(argv):
    if os.environ.get('PYTHONHASHSEED') != '0':
        os.environ['PYTHONHASHSEED'] = '0'
        os.execv(sys.executable, [sys.executable, '-X', 'faulthandler'] + sys.argv)
    here = os.path.dirname(os.path.dirname(os.path.abspath(__file__)))
    sys.path.insert(0, here)
    os.chdir(here)
    import argparse
    ap = argparse.ArgumentParser()
    ap.add_argument('prop')
    ap.add_argument('--tier', default=os.environ.get('VERIF_TIER', 'quick'), choices=['quick', 'thorough'])
    ap.add_argument('--replay', default=None)
    a = ap.parse_args(argv)
    seed = int(os.environ.get('VERIF_SEED', '1') or '1')
    from harness.runner import run_property, HarnessError
    # every temporary file of the run (parent, pool workers, confirmation and fuzz subprocesses) goes below one scratch
    # directory that the parent removes: pool workers never run their atexit handlers
    import tempfile, shutil
    scratch = tempfile.mkdtemp(prefix='verif-run-%s-' % a.prop)
    os.environ['TMPDIR'] = scratch
    tempfile.tempdir = scratch
    try:
        return _run(a, seed, run_property, HarnessError)
    finally:
        shutil.rmtree(scratch, ignore_errors=True)


def _run(a, seed, run_property, HarnessError):
    try:
        import importlib
        mod = importlib.import_module('harness.props.' + a.prop.lower())
        prop = mod.PROP
        rc = run_property(prop, a.tier, seed, a.replay)
    except HarnessError as e:
        print('HARNESS-ERROR %s: %s' % (a.prop, e))
        return 2
    except Exception:     # noqa
        import traceback
        traceback.print_exc(file=sys.stdout)
        print('HARNESS-ERROR %s: unexpected exception in the harness' % a.prop)
        return 2
    return rc


if __name__ == '__main__':
    sys.exit(main(sys.argv[1:]))

"""Term model shared by the reference interpreters, generators and adapters.

Terms are immutable tuples:
    ('v', id) | ('a', name) | ('i', int) | ('f', name, (args...))
Lists are '.'/2 chains ending in ('a', '[]').
Bodies: ('true',) ('fail',) ('cut',) ('call', term) (',', l, r) (';', l, r) ('->', c, t) ('not', g)
"""
import re

NIL = ('a', '[]')


class Budget(Exception):
    """a step / depth / size budget of the reference was exceeded"""


class Unspecified(Exception):
    """the case is outside what the properties specify (STO unification, call of a non-callable, ...)"""


def mklist(items, tail=NIL):
    r = tail
    for x in reversed(items):
        r = ('f', '.', (x, r))
    return r


def tt(x):
    """JSON lists -> term/body tuples (inverse of json round trip)"""
    # (list comprehensions, not generator expressions inside tuple(): CPython 3.12 counts nested C calls separately and
    # gives up after a few hundred levels - a list of 450 elements is 900 levels)
    if isinstance(x, (list, tuple)):
        return tuple([tt(y) for y in x])
    return x


def walk(t, s):
    while t[0] == 'v' and t in s:
        t = s[t]
    return t


def resolve(t, s, _n=None, limit=400):
    if _n is None:
        _n = [0]
    t = walk(t, s)
    _n[0] += 1
    if _n[0] > limit:
        raise Budget('size')
    if t[0] == 'f':
        return ('f', t[1], tuple(resolve(a, s, _n, limit) for a in t[2]))
    return t


def occurs(v, t, s):
    seen = set()
    stack = [t]
    n = 0
    while stack:
        t = walk(stack.pop(), s)
        if t == v:
            return True
        if t[0] == 'f':
            if id(t) in seen:
                continue
            seen.add(id(t))
            n += 1
            if n > 5000:
                raise Budget('size')
            stack.extend(t[2])
    return False


def sto(a, b, s):
    """Order-independent detector of 'subject to occurs check' (ISO 13211-1 7.3.3): True if SOME order of the
    Herbrand algorithm on a = b under s could bind a variable to a term containing it.

    Congruence closure: an equation with a variable on one side merges the two classes (whatever the variable
    already equals); two compounds of the same name/arity merge and their arguments are equated - ALL pairs of
    same-signature compounds of a class, not one representative; a direct clash
    of two non-variable terms is skipped (no order derives anything from it).  Then a cycle test on the class
    graph with edges from EVERY compound member of a class.  Conservative: may say True for a few NSTO
    equations, never False for an STO one (self-tested against random-order Herbrand runs)."""
    parent = {}
    sigs = {}
    members = {}
    keep = []

    def node(t):
        t = walk(t, s)
        if t[0] == 'f':
            k = ('#', id(t))
            if k not in parent:
                keep.append(t)
                parent[k] = k
                sigs[k] = {(t[1], len(t[2])): [t]}
                members[k] = [t]
        else:
            k = t
            if k not in parent:
                parent[k] = k
                sigs[k] = {}
                members[k] = []
        return k

    def find(k):
        while parent[k] != k:
            parent[k] = parent[parent[k]]
            k = parent[k]
        return k

    work = [(a, b)]
    n = 0
    while work:
        x, y = work.pop()
        x = walk(x, s)
        y = walk(y, s)
        kx, ky = find(node(x)), find(node(y))
        if kx == ky:
            continue
        n += 1
        if n > 5000:
            raise Budget('size')
        if x[0] != 'v' and y[0] != 'v':
            sx = (x[1], len(x[2])) if x[0] == 'f' else x
            sy = (y[1], len(y[2])) if y[0] == 'f' else y
            if sx != sy:
                continue
        parent[ky] = kx
        for sig, ts in sigs[ky].items():
            # every pair of same-signature compounds that end up in one class is decomposed (not just one
            # representative per class): with X = t1 bound first, some order meets t1 = t2 for any two of them
            have = sigs[kx].setdefault(sig, [])
            for t in ts:
                for u in have:
                    work.extend(zip(u[2], t[2]))
            have.extend(ts)
        del sigs[ky]
        members[kx].extend(members.pop(ky))
    WHITE, GREY, BLACK = 0, 1, 2
    col = {}

    def succ(c):
        out = []
        for t in list(members[c]):
            for x in t[2]:
                out.append(find(node(x)))
        return out

    for start in [find(k) for k in list(parent)]:
        if col.get(start, WHITE) != WHITE:
            continue
        col[start] = GREY
        stack = [(start, iter(succ(start)))]
        while stack:
            c, it = stack[-1]
            for d in it:
                cd = col.get(d, WHITE)
                if cd == GREY:
                    return True
                if cd == WHITE:
                    col[d] = GREY
                    stack.append((d, iter(succ(d))))
                    break
            else:
                col[c] = BLACK
                stack.pop()
    return False


def unify(a, b, s, check_sto=True):
    """returns the extended substitution or None; raises Unspecified for STO equations."""
    if check_sto and sto(a, b, s):
        raise Unspecified('STO')
    stack = [(a, b)]
    while stack:
        a, b = stack.pop()
        a = walk(a, s)
        b = walk(b, s)
        if a == b:
            continue
        if a[0] == 'v':
            if occurs(a, b, s):
                raise Unspecified('occurs')
            s = dict(s)
            s[a] = b
        elif b[0] == 'v':
            if occurs(b, a, s):
                raise Unspecified('occurs')
            s = dict(s)
            s[b] = a
        elif a[0] == 'f' and b[0] == 'f':
            if a[1] != b[1] or len(a[2]) != len(b[2]):
                return None
            stack.extend(zip(a[2], b[2]))
        else:
            return None
    return s


def term_vars(t, acc):
    if t[0] == 'v':
        if t not in acc:
            acc.append(t)
    elif t[0] == 'f':
        for a in t[2]:
            term_vars(a, acc)
    return acc


def term_size(t):
    if t[0] == 'f':
        return 1 + sum(term_size(a) for a in t[2])
    return 1


def term_depth(t):
    if t[0] == 'f':
        return 1 + max([term_depth(a) for a in t[2]] or [0])
    return 0


def body_map_terms(b, f):
    k = b[0]
    if k in ('true', 'fail', 'cut'):
        return b
    if k == 'call':
        return ('call', f(b[1]))
    if k in (',', ';', '->'):
        return (k, body_map_terms(b[1], f), body_map_terms(b[2], f))
    if k == 'not':
        return ('not', body_map_terms(b[1], f))
    raise ValueError(b)


def body_vars(b, acc):
    body_map_terms(b, lambda t: (term_vars(t, acc), t)[1])
    return acc


def body_goals(b):
    """all ('call', t) leaves, left to right"""
    k = b[0]
    if k == 'call':
        yield b[1]
    elif k in (',', ';', '->'):
        yield from body_goals(b[1])
        yield from body_goals(b[2])
    elif k == 'not':
        yield from body_goals(b[1])


def body_kinds(b, acc=None):
    if acc is None:
        acc = set()
    k = b[0]
    acc.add(k)
    if k in (',', ';', '->'):
        if k == ';' and b[1][0] == '->':
            acc.add('ite')
        body_kinds(b[1], acc)
        body_kinds(b[2], acc)
    elif k == 'not':
        body_kinds(b[1], acc)
    return acc


def canon(t):
    vs = term_vars(t, [])
    m = {v: ('v', i) for i, v in enumerate(vs)}

    def r(t):
        if t[0] == 'v':
            return m[t]
        if t[0] == 'f':
            return ('f', t[1], tuple(r(a) for a in t[2]))
        return t
    return r(t)


def group_clauses(clauses):
    """list of (head, body) -> ordered dict key -> list of clauses (one definition)"""
    prog = {}
    for h, b in clauses:
        key = (h[1], len(h[2]) if h[0] == 'f' else 0)
        prog.setdefault(key, []).append((h, b))
    return prog


# ---------------------------------------------------------------- concrete syntax
_ATOM_RE = re.compile(r'[a-z][A-Za-z0-9_]*\Z')


def atom_text(name, force_quote=False):
    if name == '[]':
        return '[]'
    if not force_quote and _ATOM_RE.match(name) and name not in ('true', 'fail'):
        return name
    return "'" + name.replace("'", "\\'") + "'"


def term_text(t, names):
    k = t[0]
    if k == 'v':
        return names[t]
    if k == 'a':
        return atom_text(t[1])
    if k == 'i':
        return str(t[1])
    if k == 'f':
        if t[1] == '.' and len(t[2]) == 2:
            items = []
            cur = t
            while cur[0] == 'f' and cur[1] == '.' and len(cur[2]) == 2:
                items.append(cur[2][0])
                cur = cur[2][1]
            if cur == NIL:
                return '[' + ','.join(term_text(x, names) for x in items) + ']'
            if cur[0] == 'v':
                return '[' + ','.join(term_text(x, names) for x in items) + '|' + names[cur] + ']'
            raise ValueError('improper list not expressible')
        if t[1] in ('=', '\\=') and len(t[2]) == 2:
            return '(' + term_text(t[2][0], names) + ' ' + t[1] + ' ' + term_text(t[2][1], names) + ')'
        return atom_text(t[1]) + '(' + ','.join(term_text(a, names) for a in t[2]) + ')'
    raise ValueError(t)


def goal_text(t, names):
    if t[0] == 'f' and t[1] in ('=', '\\=') and len(t[2]) == 2:
        return term_text(t[2][0], names) + ' ' + t[1] + ' ' + term_text(t[2][1], names)
    return term_text(t, names)


PREC = {';': 3, '->': 2, ',': 1}


def body_text(b, names, ctx=4, full_parens=False):
    """minimal parentheses for ',' < '->' < ';' (all right associative); full_parens parenthesises every
    binary node"""
    k = b[0]
    if k == 'true':
        return 'true'
    if k == 'fail':
        return 'fail'
    if k == 'cut':
        return '!'
    if k == 'call':
        return goal_text(b[1], names)
    if k == 'not':
        return '\\+ ' + body_text(b[1], names, 0, full_parens)
    p = PREC[k]
    if full_parens:
        return '(' + body_text(b[1], names, 0, True) + {',': ', ', ';': ' ; ', '->': ' -> '}[k] + \
            body_text(b[2], names, 0, True) + ')'
    s = body_text(b[1], names, p - 1) + {',': ', ', ';': ' ; ', '->': ' -> '}[k] + body_text(b[2], names, p)
    if p > ctx:
        s = '(' + s + ')'
    return s


def clause_names(head, body, anon_singletons=False):
    vs = term_vars(head, [])
    body_vars(body, vs)
    names = {v: 'V%d' % i for i, v in enumerate(vs)}
    if anon_singletons:
        cnt = {}

        def count(t):
            if t[0] == 'v':
                cnt[t] = cnt.get(t, 0) + 1
            elif t[0] == 'f':
                for a in t[2]:
                    count(a)
            return t
        count(head)
        body_map_terms(body, count)
        for v, c in cnt.items():
            if c == 1:
                names[v] = '_'
    return names


def clause_text(head, body, names=None, full_parens=False):
    if names is None:
        names = clause_names(head, body)
    h = term_text(head, names)
    if body == ('true',):
        return h + '.'
    bt = body_text(body, names, 4, full_parens)
    if full_parens and bt.startswith('(') and body[0] in PREC:
        pass
    return h + ' :- ' + bt + '.'


def program_text(clauses, anon_singletons=False, full_parens=False):
    out = []
    for h, b in clauses:
        out.append(clause_text(h, b, clause_names(h, b, anon_singletons), full_parens))
    return '\n'.join(out) + '\n'


def show(t):
    """human-readable rendering of a (canonical) term for evidence samples and reports"""
    vs = term_vars(t, [])
    names = {v: '_G%s' % (v[1],) for v in vs}
    try:
        return term_text(t, names)
    except ValueError:
        return repr(t)

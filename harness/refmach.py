"""Second reference engine, structurally different from refint.Interp: iterative, explicit goal stack (linked
list) + choice-point stack + cut barriers ($cutto frames for if-then-else, negation and once).  Shares only the
term helpers / unify / sto with R.  Used to cross-check R (a disagreement is a harness error, never a
violation)."""
import itertools
from .terms import walk, resolve, unify, mklist, Budget, Unspecified, body_map_terms
from .refint import Fact, as_program


class Machine:
    def __init__(self, program, variadic=None, max_steps=20000, max_depth=60, findall_copy=True):
        self.program = as_program(program)
        self.variadic = variadic or {}
        self.facts = {}
        self.counter = itertools.count(5000000)
        self.steps = 0
        self.max_steps = max_steps
        self.max_depth = max_depth
        self.findall_copy = findall_copy

    def fresh(self):
        return ('v', next(self.counter))

    def rename(self, t, m):
        if t[0] == 'v':
            if t not in m:
                m[t] = self.fresh()
            return m[t]
        if t[0] == 'f':
            return ('f', t[1], tuple(self.rename(a, m) for a in t[2]))
        return t

    def groups_for(self, name, args):
        key = (name, len(args))
        groups = [[('fact', f) for f in list(self.facts.get(key, ()))]]
        defs = None
        if key in self.program:
            defs = list(self.program[key])
        elif name in self.variadic:
            defs = [self.variadic[name]]
        if defs is None:
            groups.append([('builtin', None)])
        else:
            for kind, payload in defs:
                if kind == 'clauses':
                    groups.append([('clause', c) for c in payload])
                else:
                    rows = payload(len(args)) if callable(payload) else payload
                    groups.append([('row', r) for r in rows if len(r) == len(args)])
        return groups

    def run(self, goal_term, s0=None, depth0=0):
        goals = (('call', goal_term, 0, depth0), None)
        s = dict(s0 or {})
        cps = self.cps = []

        def backtrack():
            while cps:
                cp = cps[-1]
                k = cp['k']
                if k == 'alt':
                    cps.pop()
                    return cp['goals'], cp['s']
                if k == 'items':
                    while cp['i'] < len(cp['items']):
                        it = cp['items'][cp['i']]
                        cp['i'] += 1
                        if cp['i'] >= len(cp['items']):
                            cps.pop()
                            barrier = len(cps)
                        else:
                            barrier = len(cps) - 1
                        r = self.try_item(it, cp, barrier)
                        if r is not None:
                            return r
                        if cps and cps[-1] is cp:
                            continue
                        break
                    else:
                        if cps and cps[-1] is cp:
                            cps.pop()
                    continue
                if k == 'groups':
                    gi = cp['gi']
                    if gi >= len(cp['groups']):
                        cps.pop()
                        continue
                    cp['gi'] += 1
                    if cp['gi'] >= len(cp['groups']):
                        cps.pop()
                    items = cp['groups'][gi]
                    if items:
                        cps.append({'k': 'items', 'items': items, 'i': 0, 'goal': cp['goal'], 'rest': cp['rest'],
                                    's': cp['s'], 'depth': cp['depth']})
                    continue
                if k == 'retract':
                    lst = cp['snap']
                    found = None
                    while cp['i'] < len(lst):
                        f = lst[cp['i']]
                        cp['i'] += 1
                        if f.erased:
                            continue
                        s1 = unify(cp['t'], self.rename(f.term, {}), cp['s'])
                        if s1 is not None:
                            f.erased = True
                            self.facts[cp['key']] = [x for x in self.facts[cp['key']] if x is not f]
                            found = s1
                            break
                    if cp['i'] >= len(lst):
                        cps.pop()
                    if found is not None:
                        return cp['rest'], found
                    continue
                raise ValueError(k)
            return None

        while True:
            if goals is None:
                yield s
                r = backtrack()
                if r is None:
                    return
                goals, s = r
                continue
            (kind, payload, barrier, depth), rest = goals
            if kind == 'body':
                b = payload
                bk = b[0]
                if bk == 'true':
                    goals = rest
                    continue
                if bk == 'fail':
                    r = backtrack()
                    if r is None:
                        return
                    goals, s = r
                    continue
                if bk == 'cut':
                    del cps[barrier:]
                    goals = rest
                    continue
                if bk == ',':
                    goals = (('body', b[1], barrier, depth), (('body', b[2], barrier, depth), rest))
                    continue
                if bk == ';':
                    if b[1][0] == '->':
                        mark = len(cps)
                        cps.append({'k': 'alt', 'goals': (('body', b[2], barrier, depth), rest), 's': s})
                        goals = (('body', b[1][1], len(cps), depth),
                                 (('cutto', mark, 0, depth), (('body', b[1][2], barrier, depth), rest)))
                    else:
                        cps.append({'k': 'alt', 'goals': (('body', b[2], barrier, depth), rest), 's': s})
                        goals = (('body', b[1], barrier, depth), rest)
                    continue
                if bk == '->':
                    mark = len(cps)
                    goals = (('body', b[1], mark, depth),
                             (('cutto', mark, 0, depth), (('body', b[2], barrier, depth), rest)))
                    continue
                if bk == 'not':
                    mark = len(cps)
                    cps.append({'k': 'alt', 'goals': rest, 's': s})
                    goals = (('body', b[1], len(cps), depth),
                             (('cutto', mark, 0, depth), (('body', ('fail',), 0, depth), None)))
                    continue
                if bk == 'call':
                    goals = (('call', b[1], barrier, depth), rest)
                    continue
                raise ValueError(b)
            if kind == 'cutto':
                del cps[payload:]
                goals = rest
                continue
            if kind == 'call':
                self.steps += 1
                if self.steps > self.max_steps:
                    raise Budget('steps')
                if depth > self.max_depth:
                    raise Budget('depth')
                g = walk(payload, s)
                if g[0] == 'a':
                    name, args = g[1], ()
                elif g[0] == 'f':
                    name, args = g[1], g[2]
                    resolve(g, s, None, 300)
                else:
                    raise Unspecified('non-callable goal')
                groups = self.groups_for(name, args)
                cps.append({'k': 'groups', 'groups': groups, 'gi': 0, 'goal': g, 'rest': rest, 's': s, 'depth': depth})
                r = backtrack()
                if r is None:
                    return
                goals, s = r
                continue
            raise ValueError(kind)

    def try_item(self, it, cp, barrier):
        kind, x = it
        goal, rest, s, depth = cp['goal'], cp['rest'], cp['s'], cp['depth']
        if kind == 'fact':
            s1 = unify(goal, self.rename(x.term, {}), s)
            return None if s1 is None else (rest, s1)
        if kind == 'clause':
            head, body = x
            m = {}
            s1 = unify(goal, self.rename(head, m), s)
            if s1 is None:
                return None
            bd = body_map_terms(body, lambda t: self.rename(t, m))
            return ((('body', bd, barrier, depth + 1), rest), s1)
        if kind == 'row':
            m = {}
            if goal[0] != 'f':
                return (rest, s)
            s1 = unify(goal, ('f', goal[1], tuple(self.rename(r, m) for r in x)), s)
            return None if s1 is None else (rest, s1)
        if kind == 'builtin':
            return self.builtin(goal, rest, s, depth)
        raise ValueError(kind)

    def fact_key(self, t):
        if t[0] not in ('a', 'f'):
            raise Unspecified('database operation on non-callable')
        return (t[1], len(t[2]) if t[0] == 'f' else 0)

    def builtin(self, goal, rest, s, depth):
        name = goal[1]
        args = goal[2] if goal[0] == 'f' else ()
        n = len(args)
        if name == '=' and n == 2:
            s1 = unify(args[0], args[1], s)
            return None if s1 is None else (rest, s1)
        if name == '\\=' and n == 2:
            return (rest, s) if unify(args[0], args[1], s) is None else None
        if name == 'call' and n >= 1:
            return ((('call', self.add_args(args[0], args[1:], s), 0, depth + 1), rest), s)
        if name == 'once' and n == 1:
            mark = len(self.cps)
            return ((('call', self.add_args(args[0], (), s), 0, depth + 1), (('cutto', mark, 0, depth), rest)), s)
        if name == 'findall' and n == 3:
            sub = Machine({}, None, self.max_steps, self.max_depth, self.findall_copy)
            sub.program = self.program
            sub.variadic = self.variadic
            sub.facts = self.facts
            sub.counter = self.counter
            sub.steps = self.steps
            res = []
            try:
                for s1 in sub.run(self.add_args(args[1], (), s), s, depth + 1):
                    t = resolve(args[0], s1)
                    res.append(self.rename(t, {}) if self.findall_copy else t)
            finally:
                self.steps = sub.steps
            s2 = unify(args[2], mklist(res), s)
            return None if s2 is None else (rest, s2)
        if name in ('asserta', 'assertz') and n == 1:
            t = resolve(args[0], s)
            key = self.fact_key(t)
            f = Fact(self.rename(t, {}))
            lst = self.facts.setdefault(key, [])
            if name == 'asserta':
                lst.insert(0, f)
            else:
                lst.append(f)
            return (rest, s)
        if name == 'retract' and n == 1:
            t = walk(args[0], s)
            key = self.fact_key(t)
            self.cps.append({'k': 'retract', 'snap': list(self.facts.get(key, ())), 'i': 0, 't': t, 'key': key,
                             'rest': rest, 's': s})
            return None
        if name == 'retractall' and n == 1:
            t = walk(args[0], s)
            key = self.fact_key(t)
            for f in list(self.facts.get(key, ())):
                if unify(t, self.rename(f.term, {}), s) is not None:
                    f.erased = True
            if key in self.facts:
                self.facts[key] = [x for x in self.facts[key] if not x.erased]
            return (rest, s)
        return None

    def add_args(self, g, extra, s):
        g = walk(g, s)
        if g[0] == 'a':
            return ('f', g[1], tuple(extra)) if extra else g
        if g[0] == 'f':
            return ('f', g[1], g[2] + tuple(extra))
        raise Unspecified('call of non-callable')

    def db(self):
        from .terms import canon
        return sorted((list(k), [canon(f.term) for f in v]) for k, v in self.facts.items() if v)

#!/venv/bin/python
"""atheris (libFuzzer) campaign over the text -> compiler properties C10, C11, C12 (thorough tier only).

The fuzz target feeds every input to the SAME decision functions the Hypothesis checks use (semantic oracles inside
the target: independent recogniser, AST analysis, loadability), in two decodings chosen by the first byte: the rest
as UTF-8 source text, or as a byte genome for the C10 decoder (valid program + corruptions).  Coverage is
instrumented for the hand-written compiler modules only (the ANTLR runtime is table driven).  A failure is written as
a replay file for the property that failed and the process exits 77; the caller re-decides it deterministically.
usage: fuzz_text.py <workdir> <property id> -runs=N -seed=S [corpus dirs...]"""
import os
import sys
import json

VERIF = os.path.dirname(os.path.dirname(os.path.abspath(__file__)))
sys.path.insert(0, VERIF)
sys.path.insert(0, os.path.join(VERIF, '.deps'))
sys.setrecursionlimit(20000)
workdir = sys.argv[1]
which = sys.argv[2]
import atheris      # noqa: E402

with atheris.instrument_imports(include=['yldprolog.yp_prolog_visitor', 'yldprolog.yp_generator', 'yldprolog.compiler', 'yldprolog.errors']):
    from harness import impl      # noqa: E402,F401
from harness.gen import Src      # noqa: E402
from harness.props import c10, c11, c12      # noqa: E402
from harness.runner import HarnessError      # noqa: E402

PROPS = [c10.PROP, c11.PROP, c12.PROP]
stats = {'execs': 0, 'in_language': 0, 'accepted': 0, 'decoded_genome': 0, 'raw_text': 0}


def one(data):
    stats['execs'] += 1
    if not data:
        return
    if data[0] % 2 == 0:
        stats['decoded_genome'] += 1
        case = c10.PROP.decode(Src(data[1:]))
        text = case['text']
    else:
        stats['raw_text'] += 1
        text = data[1:].decode('utf8', 'replace')
    if len(text) > 2000:
        return
    for prop, case in ((c10.PROP, {'text': text, 'edits': ['fuzz']}), (c11.PROP, {'text': text, 'kinds': ['fuzz']}),
                       (c12.PROP, {'text': text, 'positions': ['fuzz']})):
        if prop.id != which:
            continue
        try:
            out = prop.decide(case)
        except HarnessError as e:
            with open(os.path.join(workdir, 'harness_error.txt'), 'w') as f:
                f.write(str(e))
            os._exit(78)
        if out.status == 'fail':
            with open(os.path.join(workdir, 'failure.json'), 'w') as f:
                json.dump({'property': prop.id, 'signature': out.signature, 'case': case}, f)
            with open(os.path.join(workdir, 'stats.json'), 'w') as f:
                json.dump(stats, f)
            os._exit(77)
        if 'accepted' in out.classes or 'accepted-and-defs-checked' in out.classes:
            stats['accepted'] += 1
    if stats['execs'] % 2000 == 0:
        with open(os.path.join(workdir, 'stats.json'), 'w') as f:
            json.dump(stats, f)


def main():
    argv = [sys.argv[0]] + sys.argv[3:]
    atheris.Setup(argv, one)
    try:
        atheris.Fuzz()
    finally:
        with open(os.path.join(workdir, 'stats.json'), 'w') as f:
            json.dump(stats, f)


if __name__ == '__main__':
    main()

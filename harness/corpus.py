# Hand-derived conformance corpus for the reference interpreters (oracle self-test, DESIGN.md 4.4).
# Every expected answer list below was derived by hand from ISO 13211-1 semantics
# (section numbers given where an ISO example was adapted).
from .terms import mklist, NIL, canon, resolve, body_map_terms
import itertools

def V(n): return ('v', n)
def A(n): return ('a', n)
def I(n): return ('i', n)
def T(x):
    if isinstance(x, tuple): return x
    if isinstance(x, int): return I(x)
    if isinstance(x, str): return V(x) if (x[0].isupper() or x[0] == '_') else A(x)
    if isinstance(x, list): return mklist([T(y) for y in x])
    raise ValueError(x)
def F(name, *args): return ('f', name, tuple(T(a) for a in args)) if args else A(name)
def G(name, *args): return ('call', F(name, *args))
TRUE, FAIL, CUT = ('true',), ('fail',), ('cut',)
def conj(*xs):
    xs = list(xs); r = xs.pop()
    while xs: r = (',', xs.pop(), r)
    return r
def disj(a, b): return (';', a, b)
def ite(c, t, e): return (';', ('->', c, t), e)
def ifthen(c, t): return ('->', c, t)
def neg(a): return ('not', a)
def eq(a, b): return ('call', ('f', '=', (T(a), T(b))))
def neq(a, b): return ('call', ('f', '\\=', (T(a), T(b))))
def cl(head, body=TRUE): return (head, body)

Q3 = [cl(F('q', 'a')), cl(F('q', 'b')), cl(F('q', 'c'))]
R2 = [cl(F('r', 1)), cl(F('r', 2))]

# (name, clauses, query term, expected answers as list of tuples of argument terms; '_' stands for "unbound, distinct")
CORPUS = []
def case(name, clauses, query, expected):
    CORPUS.append((name, clauses, query, [tuple(T(x) if x != '_' else '_' for x in row) for row in expected]))

# ---- conjunction / order / multiplicity
case('facts in order', Q3, F('q', 'X'), [('a',), ('b',), ('c',)])
case('conjunction is nested loops', Q3 + R2 + [cl(F('p', 'X', 'Y'), conj(G('q', 'X'), G('r', 'Y')))], F('p', 'X', 'Y'),
     [('a', 1), ('a', 2), ('b', 1), ('b', 2), ('c', 1), ('c', 2)])
case('duplicate answers are kept', [cl(F('q', 'a')), cl(F('q', 'a'))], F('q', 'X'), [('a',), ('a',)])
case('unknown predicate fails', Q3 + [cl(F('p', 'X'), conj(G('q', 'X'), G('nope', 'X')))], F('p', 'X'), [])
case('repeated head variable', [cl(F('p', 'X', 'X'))], F('p', 'a', 'Y'), [('a', 'a')])
case('repeated head variable mismatch', [cl(F('p', 'X', 'X'))], F('p', 'a', 'b'), [])
case('fresh variables per activation', [cl(F('p', 'X', 'Y'), conj(G('id', 'X', 'A'), G('id', 'Y', 'B'), eq('A', 1), eq('B', 2))), cl(F('id', 'Z', 'Z'))], F('p', 'X', 'Y'), [(1, 2)])
case('append splits', [cl(F('app', [], 'L', 'L')), cl(F('app', ('f', '.', (V('H'), V('T'))), 'L', ('f', '.', (V('H'), V('R')))), G('app', 'T', 'L', 'R'))],
     F('app', 'X', 'Y', [1, 2]), [([], [1, 2], [1, 2]), ([1], [2], [1, 2]), ([1, 2], [], [1, 2])])
# ---- cut (ISO 7.8.4)
case('cut first goal', Q3 + [cl(F('p', 'X'), conj(CUT, G('q', 'X'))), cl(F('p', 'z'))], F('p', 'X'), [('a',), ('b',), ('c',)])
case('cut after goal', Q3 + [cl(F('p', 'X'), conj(G('q', 'X'), CUT)), cl(F('p', 'z'))], F('p', 'X'), [('a',)])
case('cut in the middle', Q3 + R2 + [cl(F('p', 'X', 'Y'), conj(G('q', 'X'), CUT, G('r', 'Y'))), cl(F('p', 'z', 'z'))], F('p', 'X', 'Y'), [('a', 1), ('a', 2)])
case('goals right of a cut in a nested conjunction keep backtracking', Q3 + R2 + [cl(F('p', 'X', 'Y'), (',', (',', CUT, G('r', 'Y')), G('q', 'X'))), cl(F('p', 'z', 'z'))], F('p', 'X', 'Y'),
     [('a', 1), ('b', 1), ('c', 1), ('a', 2), ('b', 2), ('c', 2)])
case('cut is local to the clause: caller keeps alternatives', Q3 + R2 + [cl(F('p', 'X'), conj(G('q', 'X'), CUT)), cl(F('m', 'X', 'Y'), conj(G('r', 'Y'), G('p', 'X')))], F('m', 'X', 'Y'), [('a', 1), ('a', 2)])
case('cut in second clause only', Q3 + [cl(F('p', 'X'), G('q', 'X')), cl(F('p', 'y'), CUT), cl(F('p', 'z'))], F('p', 'X'), [('a',), ('b',), ('c',), ('y',)])
case('cut then fail', Q3 + [cl(F('p', 'X'), conj(G('q', 'X'), CUT, FAIL)), cl(F('p', 'z'))], F('p', 'X'), [])
case('cut in disjunction branch cuts the clause', Q3 + R2 + [cl(F('p', 'X'), disj(conj(G('q', 'X'), CUT), G('r', 'X'))), cl(F('p', 'z'))], F('p', 'X'), [('a',)])
case('cut in right disjunct', Q3 + R2 + [cl(F('p', 'X'), disj(G('r', 'X'), conj(G('q', 'X'), CUT))), cl(F('p', 'z'))], F('p', 'X'), [(1,), (2,), ('a',)])
case('cut in then branch', Q3 + R2 + [cl(F('p', 'X', 'Y'), conj(G('r', 'Y'), ite(G('q', 'X'), CUT, TRUE))), cl(F('p', 'z', 'z'))], F('p', 'X', 'Y'), [('a', 1)])
case('cut in else branch', Q3 + R2 + [cl(F('p', 'X', 'Y'), conj(G('r', 'Y'), ite(FAIL, TRUE, conj(CUT, G('q', 'X'))))), cl(F('p', 'z', 'z'))], F('p', 'X', 'Y'), [('a', 1), ('b', 1), ('c', 1)])
case('ISO twice/goal example shape', [cl(F('twice', 'x1'), TRUE), cl(F('twice', 'x2'), TRUE), cl(F('g', 'X', 'Y'), conj(G('twice', 'X'), CUT, G('twice', 'Y')))], F('g', 'X', 'Y'), [('x1', 'x1'), ('x1', 'x2')])
# ---- disjunction / if-then-else / negation (ISO 7.8.6 - 7.8.8, 8.15.1)
case('disjunction left then right', Q3 + R2 + [cl(F('p', 'X'), disj(G('q', 'X'), G('r', 'X')))], F('p', 'X'), [('a',), ('b',), ('c',), (1,), (2,)])
case('continuation sees every answer of a disjunction', Q3 + R2 + [cl(F('p', 'X', 'Y'), conj(disj(eq('X', 'u'), eq('X', 'v')), G('r', 'Y')))], F('p', 'X', 'Y'), [('u', 1), ('u', 2), ('v', 1), ('v', 2)])
case('if-then-else commits to first answer of the condition', Q3 + R2 + [cl(F('p', 'X', 'Y'), ite(G('q', 'X'), G('r', 'Y'), eq('Y', 'z')))], F('p', 'X', 'Y'), [('a', 1), ('a', 2)])
case('if-then-else takes else when the condition fails', Q3 + R2 + [cl(F('p', 'Y'), ite(G('q', 'd'), G('r', 'Y'), eq('Y', 'z')))], F('p', 'Y'), [('z',)])
case('else branch does not see bindings of a failed condition', Q3 + [cl(F('p', 'X'), ite(conj(G('q', 'X'), FAIL), TRUE, eq('X', 'free')))], F('p', 'X'), [('free',)])
case('if-then without else fails when the condition fails', Q3 + [cl(F('p', 'Y'), ifthen(G('q', 'd'), eq('Y', 1))), cl(F('p', 'zz'))], F('p', 'Y'), [('zz',)])
case('if-then without else succeeds like then', Q3 + R2 + [cl(F('p', 'X', 'Y'), ifthen(G('q', 'X'), G('r', 'Y')))], F('p', 'X', 'Y'), [('a', 1), ('a', 2)])
case('if-then fails when then fails, no retry of condition', Q3 + [cl(F('p', 'X'), ifthen(G('q', 'X'), eq('X', 'b'))), cl(F('p', 'zz'))], F('p', 'X'), [('zz',)])
case('nested if-then-else', Q3 + R2 + [cl(F('p', 'X', 'Y'), ite(G('q', 'X'), ite(G('r', 'Y'), TRUE, eq('Y', 'n')), eq('Y', 'm')))], F('p', 'X', 'Y'), [('a', 1)])
case('if-then-else as condition', Q3 + [cl(F('p', 'X', 'Y'), ite(ite(G('q', 'X'), FAIL, TRUE), eq('Y', 't'), eq('Y', 'e')))], F('p', 'X', 'Y'), [('_', 'e')])
case('a -> b -> c ; d is a -> (b -> c) ; d', Q3 + [cl(F('p', 'X'), ite(G('q', 'a'), ifthen(G('q', 'd'), eq('X', 'one')), eq('X', 'two')))], F('p', 'X'), [])
case('continuation after if-then-else', Q3 + R2 + [cl(F('p', 'X', 'Y'), conj(ite(G('q', 'X'), TRUE, eq('X', 'n')), G('r', 'Y')))], F('p', 'X', 'Y'), [('a', 1), ('a', 2)])
case('negation succeeds when goal fails, binds nothing', Q3 + [cl(F('p', 'X'), conj(neg(G('q', 'd')), G('q', 'X')))], F('p', 'X'), [('a',), ('b',), ('c',)])
case('negation fails when goal has an answer', Q3 + [cl(F('p', 'X'), neg(G('q', 'X')))], F('p', 'X'), [])
case('double negation binds nothing', Q3 + R2 + [cl(F('p', 'X'), conj(neg(neg(G('q', 'X'))), G('r', 'X')))], F('p', 'X'), [(1,), (2,)])
case('negation of a conjunction', Q3 + R2 + [cl(F('p', 'X'), conj(neg(conj(G('q', 'X'), G('r', 'X'))), eq('X', 'ok')))], F('p', 'X'), [('ok',)])
case('negation as last goal', Q3 + [cl(F('p', 'X'), conj(G('q', 'X'), neg(eq('X', 'b'))))], F('p', 'X'), [('a',), ('c',)])
# ---- = and \=
case('= unifies both ways', [cl(F('p', 'X', 'Y'), eq(F('f', 'X', 'b'), F('f', 'a', 'Y')))], F('p', 'X', 'Y'), [('a', 'b')])
case('= aliasing', [cl(F('p', 'X', 'Y'), eq('X', 'Y'))], F('p', 'X', 'Y'), [('S', 'S')])
case('\\= fails on unifiable', [cl(F('p', 'X'), neq('X', 'a'))], F('p', 'X'), [])
case('\\= succeeds without binding', [cl(F('p', 'X'), conj(neq(F('f', 'X'), F('g', 'X')), eq('X', 'ok')))], F('p', 'X'), [('ok',)])
# ---- call/N, once, findall (ISO 7.8.3, 8.10.1, 8.15.2)
FOO = [cl(F('foo', 'k')), cl(F('foo', 'm'))]
case('call/1 inline', FOO + [cl(F('p', 'X'), G('call', F('foo', 'X')))], F('p', 'X'), [('k',), ('m',)])
case('call/1 goal in variable', FOO + [cl(F('p', 'X'), conj(eq('G', F('foo', 'X')), G('call', 'G')))], F('p', 'X'), [('k',), ('m',)])
case('call/2 atom plus argument', FOO + [cl(F('p', 'X'), G('call', 'foo', 'X'))], F('p', 'X'), [('k',), ('m',)])
case('call/3 appends arguments at the end', [cl(F('pair', 1, 'a')), cl(F('pair', 2, 'b')), cl(F('p', 'X'), G('call', F('pair', 2), 'X'))], F('p', 'X'), [('b',)])
case('once takes first answer only', FOO + [cl(F('p', 'X'), G('once', F('foo', 'X')))], F('p', 'X'), [('k',)])
case('once fails when goal fails', FOO + [cl(F('p', 'X'), G('once', F('foo', 'zz'))), cl(F('p', 'e'))], F('p', 'X'), [('e',)])
case('findall collects in order', FOO + [cl(F('p', 'L'), G('findall', 'X', F('foo', 'X'), 'L'))], F('p', 'L'), [(['k', 'm'],)])
case('findall gives [] when goal fails', FOO + [cl(F('p', 'L'), G('findall', 'X', F('foo', 'zz'), 'L'))], F('p', 'L'), [([],)])
case('findall leaves no binding', FOO + [cl(F('p', 'L', 'X'), G('findall', 'X', F('foo', 'X'), 'L'))], F('p', 'L', 'X'), [(['k', 'm'], '_')])
case('findall with template structure', FOO + [cl(F('p', 'L'), G('findall', F('t', 'X', 'X'), F('foo', 'X'), 'L'))], F('p', 'L'), [([F('t', 'k', 'k'), F('t', 'm', 'm')],)])
case('findall with bound bag that matches', FOO + [cl(F('p'), G('findall', 'X', F('foo', 'X'), ['k', 'm']))], A('p'), [()])
case('findall with bound bag that does not match', FOO + [cl(F('p'), G('findall', 'X', F('foo', 'X'), ['k']))], A('p'), [])
# ---- database, logical update view (ISO 7.5.4, 8.9)
case('assertz appends, asserta prepends', [cl(F('p', 'X'), conj(G('assertz', F('d', 'b')), G('assertz', F('d', 'a')), G('asserta', F('d', 'c')), G('d', 'X')))], F('p', 'X'), [('c',), ('b',), ('a',)])
case('retract removes first match per answer (repo test: c,b,a,c,b)', [cl(F('p', 'X'), conj(G('assertz', F('d', 'b')), G('assertz', F('d', 'a')), G('assertz', F('d', 'a')), G('asserta', F('d', 'c')), G('retract', F('d', 'a')), G('d', 'X')))], F('p', 'X'),
     [('c',), ('b',), ('a',), ('c',), ('b',)])
case('retract with variable pattern (repo test: b,a,a,a,a,a)', [cl(F('p', 'X'), conj(G('assertz', F('d', 'b')), G('assertz', F('d', 'a')), G('assertz', F('d', 'a')), G('asserta', F('d', 'c')), G('retract', F('d', '_')), G('d', 'X')))], F('p', 'X'),
     [('b',), ('a',), ('a',), ('a',), ('a',), ('a',)])
case('retractall succeeds once and removes all matches', [cl(F('p', 'X'), conj(G('assertz', F('d', 'b')), G('assertz', F('d', 'a')), G('assertz', F('d', 'a')), G('retractall', F('d', 'a')), G('d', 'X')))], F('p', 'X'), [('b',)])
case('retractall on unknown predicate succeeds', [cl(F('p'), G('retractall', F('zz', '_')))], A('p'), [()])
case('retract on unknown predicate fails', [cl(F('p'), G('retract', F('zz', '_'))), cl(F('p'))], A('p'), [()])
case('zero-arity facts', [cl(F('p'), conj(G('assertz', 'flag'), G('flag'), G('retract', 'flag'), neg(G('flag'))))], A('p'), [()])
case('logical update view: enumeration does not see later additions', [cl(F('p', 'X'), conj(G('assertz', F('d', 1)), G('d', 'X'), G('assertz', F('d', 2))))], F('p', 'X'), [(1,)])
case('logical update view: enumeration still visits a fact retracted after it started', [cl(F('p', 'X'), conj(G('assertz', F('d', 1)), G('assertz', F('d', 2)), G('d', 'X'), G('retractall', F('d', '_'))))], F('p', 'X'), [(1,), (2,)])
case('drain loop visits every fact once', [cl(F('p', 'L'), conj(G('assertz', F('d', 1)), G('assertz', F('d', 2)), G('assertz', F('d', 3)), G('drain'), G('findall', 'X', F('d', 'X'), 'L'))), cl(F('drain'), conj(G('d', 'X'), G('retract', F('d', 'X')), FAIL)), cl(F('drain'))], F('p', 'L'), [([],)])
case('counter update loop terminates', [cl(F('p', 'N'), conj(G('assertz', F('c', 'z')), G('upd'), G('c', 'N'))), cl(F('upd'), conj(G('retract', F('c', 'N')), G('assertz', F('c', F('s', 'N'))), FAIL)), cl(F('upd'))], F('p', 'N'), [(F('s', 'z'),)])
case('suspended retract skips a fact removed meanwhile', [cl(F('p', 'X'), conj(G('assertz', F('d', 1)), G('assertz', F('d', 2)), G('assertz', F('d', 3)), G('retract', F('d', 'X')), G('retractall', F('d', 2))))], F('p', 'X'), [(1,), (3,)])
case('asserted term is a copy: later binding does not change the fact', [cl(F('p', 'R'), conj(G('assertz', F('d', 'X')), eq('X', 'a'), G('d', 'b'), eq('R', 'yes')))], F('p', 'R'), [('yes',)])
case('asserted term is deeply dereferenced', [cl(F('p', 'Z'), conj(eq('X', F('f', 'Y')), eq('Y', 'a'), G('assertz', F('d', 'X')), G('d', F('f', 'Z'))))], F('p', 'Z'), [('a',)])
case('non-ground fact is fresh at every use', [cl(F('p'), conj(G('assertz', F('d', '_')), G('d', 'a'), G('d', 'b')))], A('p'), [()])
case('non-ground fact keeps internal sharing', [cl(F('p', 'X', 'Y'), conj(G('assertz', F('d', 'Z', 'Z')), G('d', 'X', 'a'), G('d', 'b', 'Y')))], F('p', 'X', 'Y'), [('a', 'b')])
case('facts are consulted before clauses', [cl(F('p', 'X'), conj(G('assertz', F('q', 'dyn')), G('q', 'X')))] + Q3, F('p', 'X'), [('dyn',), ('a',), ('b',), ('c',)])

# ---- additional cases pinned after oracle bugs found while prototyping (see DESIGN.md 4.3/4.4)
case('cut flag is set on re-entry, not eagerly: (!, r(Y)), q(X)', Q3 + R2 + [cl(F('p', 'X', 'Y'), (',', (',', CUT, G('r', 'Y')), G('q', 'X'))), cl(F('p', 'z', 'z'))], F('p', 'X', 'Y'),
     [('a', 1), ('b', 1), ('c', 1), ('a', 2), ('b', 2), ('c', 2)])
case('list length mismatch is a plain failure, not STO', [cl(F('p'), eq(['k'], ['k', 'm']))], A('p'), [])
case('variadic-style call/N with compound goal and two extra args', [cl(F('t3', 1, 2, 3)), cl(F('p', 'X', 'Y'), G('call', F('t3', 1), 'X', 'Y'))], F('p', 'X', 'Y'), [(2, 3)])
case('once inside findall', FOO + [cl(F('p', 'L'), G('findall', 'X', F('once', F('foo', 'X')), 'L'))], F('p', 'L'), [(['k'],)])
case('negation is cut-opaque', Q3 + [cl(F('p', 'X'), conj(G('q', 'X'), neg(neg(eq('X', 'b'))))), cl(F('p', 'z'))], F('p', 'X'), [('b',), ('z',)])
case('if-then-else condition is cut-opaque to outer alternatives', Q3 + R2 + [cl(F('p', 'X', 'Y'), conj(G('r', 'Y'), ite(G('q', 'X'), TRUE, FAIL))), cl(F('p', 'z', 'z'))], F('p', 'X', 'Y'), [('a', 1), ('a', 2), ('z', 'z')])


def _rename_clause(h, b, n):
    m = {}

    def r(t):
        if t[0] == 'v':
            if t[1] == '_':
                return ('v', ('anon', next(n)))
            return m.setdefault(t, ('v', ('c', next(n))))
        if t[0] == 'f':
            return ('f', t[1], tuple(r(a) for a in t[2]))
        return t
    return r(h), body_map_terms(b, r)


def run_corpus():
    """runs every case on both reference engines; returns (number of cases, list of failure descriptions)"""
    from .refint import Interp
    from .refmach import Machine
    failures = []
    for name, clauses, query, expected in CORPUS:
        n = itertools.count()
        prog = [_rename_clause(h, b, n) for h, b in clauses]
        exp = []
        for row in expected:
            c = itertools.count()
            row2 = tuple(('v', ('anon', next(c))) if x == '_' else x for x in row)
            exp.append(canon(('f', 'row', row2)))
        res = {}
        for eng in ('R', 'M'):
            try:
                if eng == 'R':
                    subs = Interp(prog).call(query, {}, 0)
                else:
                    subs = Machine(prog).run(query)
                out = []
                for s in subs:
                    args = query[2] if query[0] == 'f' else ()
                    out.append(canon(('f', 'row', tuple(resolve(a, s) for a in args))))
                    if len(out) > 50:
                        break
                res[eng] = out
            except Exception as e:   # noqa
                res[eng] = ('EXC', type(e).__name__, str(e))
        if res['R'] != exp or res['M'] != exp:
            failures.append('%s: expected %r R %r M %r' % (name, exp, res['R'], res['M']))
    return len(CORPUS), failures

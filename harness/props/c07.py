"""C07 - the fact database behaves as ordered lists for every history."""
from ..terms import tt, show
from ..runner import OK, DISCARD, FAIL
from .. import gen
from .. import history as H
from .hist import HistoryProp

E = 'e0'
V = lambda n: ('v', 'H%s' % n)   # noqa: E731
HELPERS = [
    (('f', 'do', (V(1),)), ('call', ('f', 'call', (V(1),)))),
    (('f', 'az', (V(1),)), ('call', ('f', 'assertz', (V(1),)))),
    (('f', 'aa', (V(1),)), ('call', ('f', 'asserta', (V(1),)))),
    (('f', 'rt', (V(1),)), ('call', ('f', 'retract', (V(1),)))),
    (('f', 'ra', (V(1),)), ('call', ('f', 'retractall', (V(1),)))),
    # the goal arrives through a chain of variables bound at run time
    (('f', 'az2', (V(1),)), (',', ('call', ('f', '=', (V(2), V(1)))), ('call', ('f', 'assertz', (V(2),))))),
    (('f', 'rt2', (V(1),)), (',', ('call', ('f', '=', (V(2), V(3)))), (',', ('call', ('f', '=', (V(3), V(1)))), ('call', ('f', 'retract', (V(2),)))))),
]
PREDS = [('p', 0), ('p', 1), ('p', 2), ('q', 1), ('flag', 0)]
CONSTS = [('a', 'a'), ('a', 'b'), ('a', 'c'), ('i', 1), ('i', 2), ('f', 'f', (('a', 'a'),)), ('f', '.', (('a', 'a'), ('a', '[]')))]
QV = [('v', 'X'), ('v', 'Y')]


def gfact(src, name=None):
    name, n = src.pick(PREDS) if name is None else name
    if n == 0:
        return ('a', name)
    return ('f', name, tuple(src.pick(CONSTS) for _ in range(n)))


def gpattern(src, existing=None):
    """a pattern: ground (often an existing fact), partially bound, or all variables; sometimes for a predicate
    that never had facts"""
    k = src.n(8)
    if existing and k < 3:
        return src.pick(existing)
    if k == 7:
        name, n = src.pick([('never', 1), ('never', 0), ('p', 3)])
    else:
        name, n = src.pick(PREDS)
    if n == 0:
        return ('a', name)
    args = []
    for i in range(n):
        j = src.n(3)
        args.append(QV[i % 2] if j == 0 else QV[0] if j == 1 and src.n(2) else src.pick(CONSTS))
    return ('f', name, tuple(args))


class C07(HistoryProp):
    id = 'C07'
    title = 'The fact database behaves as ordered lists for every history'
    technique = 'model-based (stateful) property testing: generated operation histories vs. an executable list model'
    rule = ('histories of 8-30 operations on one engine over p/0, p/1, p/2, q/1, flag/0 (+ never-asserted predicates): '
            'asserta/assertz of ground facts through 4 routes (YP.assert_fact; YP.query("assertz",[T]); compiled '
            'helper clauses where the goal arrives in a variable bound at run time, also through a chain; freshly '
            'compiled inline clauses), retract with ground / partially bound / all-variable patterns run to '
            'exhaustion, abandoned (close) after its k-th answer (k = 0 means created and closed without being '
            'advanced) or left suspended while later operations run and stepped again afterwards, retractall, clear (+ reload of helpers), pattern queries. After EVERY operation the full '
            'contents of every predicate are read back with all-variables queries and compared with the model '
            '(reference world: dict key -> ordered list). Non-trivial = a retract removed a fact after >= 2 asserts '
            'on the same predicate and >= 2 predicates were touched; distinct = SHA-1 of the operation list.')
    assumptions = ['CPython 3.12 of /venv', 'list model = reference interpreter R (conformance corpus incl. repo tests)',
                   'facts are ground here (non-ground facts: C13); enumeration under modification: C14']
    cases = {'quick': 1600, 'thorough': 30000}
    genome = {'quick': 260, 'thorough': 400}

    def decode(self, src):
        ops = [['engine', E], ['load', E, HELPERS, True, 'ok']]
        facts = []      # facts asserted so far (for patterns that hit)
        qid = 0
        inl = 0
        nops = 6 + src.n(20)
        open_q = []
        for _ in range(nops):
            k = src.n(16)
            if k < 6:
                f = gfact(src)
                if f[0] == 'f' and src.n(6) == 5:
                    # facts that are not ground lists: an open list (the queue idiom q([a|T], T)), an improper list, a
                    # variable inside a structure
                    nv = ('v', 'T%d' % (len(ops) + 100))
                    shaped = src.pick([('f', '.', (('a', 'a'), nv)), ('f', '.', (('a', 'a'), ('a', 'b'))), ('f', 'f', (nv,)),
                                       ('f', '.', (('a', 'a'), ('f', '.', (('a', 'b'), nv))))])
                    f = ('f', f[1], (shaped,) + tuple(nv if (i == 1 and src.n(2)) else a for i, a in enumerate(f[2]) if i >= 1))
                facts.append(f)
                front = src.n(3) == 2
                route = src.n(5)
                if route == 0:
                    ops.append(['assert', E, f, not front])
                elif route == 1:
                    ops.append(['run', E, ('f', 'asserta' if front else 'assertz', (f,)), 5])
                elif route == 2:
                    ops.append(['run', E, ('f', 'aa' if front else 'az', (f,)), 5])
                elif route == 3:
                    ops.append(['run', E, ('f', 'do', (('f', 'asserta' if front else 'assertz', (f,)),)), 5])
                else:
                    if src.n(2):
                        inl += 1
                        ops.append(['load', E, [(('a', 'op%d' % inl), ('call', ('f', 'asserta' if front else 'assertz', (f,))))], True, 'ok'])
                        ops.append(['run', E, ('a', 'op%d' % inl), 5])
                    else:
                        ops.append(['run', E, ('f', 'az2', (f,)), 5])
            elif k < 11:
                p = gpattern(src, facts)
                route = src.n(5)
                if route == 0:
                    g = ('f', 'retract', (p,))
                elif route == 1:
                    g = ('f', 'rt', (p,))
                elif route == 2:
                    g = ('f', 'do', (('f', 'retract', (p,)),))
                elif route == 3:
                    g = ('f', 'rt2', (p,))
                else:
                    inl += 1
                    ops.append(['load', E, [(('f', 'op%d' % inl, tuple(QV)), ('call', ('f', 'retract', (p,))))], True, 'ok'])
                    g = ('f', 'op%d' % inl, tuple(QV))
                mode = src.n(3)
                if mode == 0:
                    ops.append(['run', E, g, 40])
                elif mode == 1:
                    qid += 1
                    ops.append(['open', E, qid, g])
                    for _ in range(src.n(4)):
                        ops.append(['step', qid])
                        ops.append(['db', E])
                    ops.append(['close', qid])
                else:
                    # stays suspended while later operations run; stepped / closed further down
                    qid += 1
                    ops.append(['open', E, qid, g])
                    if src.n(2):
                        ops.append(['step', qid])
                    open_q.append(qid)
            elif k == 12 and open_q and src.n(3) == 2:
                # clear while a retract is suspended, then resume it: it finds nothing more and must not raise
                ops.append(['clear', E])
                ops.append(['load', E, HELPERS, True, 'ok'])
                facts = []
                ops.append(['step', src.pick(open_q)])
            elif k < 13:
                p = gpattern(src, facts)
                g = ('f', 'retractall', (p,))
                r = src.n(3)
                ops.append(['run', E, g if r == 0 else ('f', 'ra', (p,)) if r == 1 else ('f', 'do', (g,)), 5])
            elif k == 13 and open_q:
                q = src.pick(open_q)
                ops.append(['step', q])
                if src.n(3) == 2:
                    ops.append(['close', q])
                    open_q.remove(q)
            elif k == 13:
                ops.append(['clear', E])
                ops.append(['load', E, HELPERS, True, 'ok'])
                facts = []
            else:
                ops.append(['run', E, gpattern(src, facts), 40])
            ops.append(['db', E])
        for q in open_q:
            if src.n(2):
                ops.append(['step', q])
            ops.append(['close', q])
            ops.append(['db', E])
        if any(op[0] == 'clear' for op in ops) and src.n(2):
            return {'ops': ops, 'cached_atoms': True}
        if src.n(4) == 0:
            return {'ops': ops, 'cached_atoms': 'own'}       # atoms built with the public Atom class
        return {'ops': ops}

    def keep_op(self, op):
        return op[0] == 'engine' or (op[0] == 'load' and len(op[2]) == len(HELPERS))

    def classify(self, case, ops, robs, ref):
        asserts = {}
        touched = set()
        removed_after_two = False
        classes = set()
        for op, ob in zip(ops, robs):
            g = None
            if op[0] == 'assert':
                t = tt(op[2])
                key = (t[1], len(t[2]) if t[0] == 'f' else 0)
                asserts[key] = asserts.get(key, 0) + 1
                touched.add(key)
                classes.add('assert:api')
            elif op[0] in ('run', 'open'):
                g = tt(op[2] if op[0] == 'run' else op[3])
                inner = g
                while inner[0] == 'f' and inner[1] in ('do', 'az', 'aa', 'rt', 'ra', 'az2', 'rt2', 'asserta', 'assertz', 'retract', 'retractall') and inner[2]:
                    outer = inner[1]
                    inner = inner[2][0]
                    if outer in ('az', 'aa', 'az2', 'asserta', 'assertz') and inner[0] in ('a', 'f') and inner[1] not in ('asserta', 'assertz'):
                        key = (inner[1], len(inner[2]) if inner[0] == 'f' else 0)
                        asserts[key] = asserts.get(key, 0) + 1
                        touched.add(key)
                        classes.add('assert:' + ('compiled-goal-in-variable' if g[1] in ('az', 'aa', 'az2', 'do') else 'query-builtin'))
                if g[0] == 'f' and g[1] in ('retract', 'rt', 'rt2') or (g[0] == 'f' and g[1] == 'do' and g[2][0][0] == 'f' and g[2][0][1] == 'retract') \
                        or (g[1].startswith('op') and g[0] == 'f'):
                    classes.add('retract')
                    if op[0] == 'open':
                        classes.add('retract-abandoned-after-k')
            if op[0] == 'clear':
                classes.add('clear')
            if isinstance(ob, list) and ob and ob[0] in ('answer',) or (isinstance(ob, list) and ob and ob[0] == 'answers' and ob[1]):
                gg = g if g is not None else None
                if gg is not None and ('retract' in show(gg)[:12] or gg[1] in ('rt', 'rt2') or gg[1].startswith('op')):
                    if any(v >= 2 for v in asserts.values()):
                        removed_after_two = True
        if any(k[1] == 0 for k in touched):
            classes.add('zero-arity-fact')
        return (removed_after_two and len(touched) >= 2), classes


PROP = C07()

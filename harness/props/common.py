"""Shared machinery of the program-differential properties (C01, C05, C06, C09, C13, C14, C20 ...):
generate program + queries, run the reference interpreter R, compile + load + run the implementation, compare."""
import sys
from ..terms import (tt, Budget, Unspecified, canon, resolve, term_vars, body_kinds, body_goals, body_map_terms,
                     group_clauses, show)
from ..refint import Interp, as_program
from ..refmach import Machine
from ..runner import Prop, OK, DISCARD, FAIL, HarnessError
from .. import gen
from .. import impl

ANSWER_LIMIT = 30


def run_ref(program, q, limit=ANSWER_LIMIT, max_steps=20000, max_depth=60, copy=True, variadic=None,
            setup=None, engine='R', immediate=False):
    """returns (status, answers, interp); status in done | limit | budget | unspec"""
    if engine == 'R':
        it = Interp(program, variadic, max_steps, max_depth, copy, immediate)
        if setup:
            setup(it)
        gen_ = (canon(resolve(q, s)) for s in it.call(q, {}, 0))
    else:
        it = Machine(program, variadic, max_steps, max_depth, copy)
        if setup:
            setup(it)
        gen_ = (canon(resolve(q, s)) for s in it.run(q))
    out = []
    status = 'done'
    try:
        for a in gen_:
            out.append(a)
            if len(out) >= limit:
                status = 'limit'
                break
    except Budget:
        status = 'budget'
    except Unspecified:
        status = 'unspec'
    except RecursionError:
        status = 'budget'
    return status, out, it


def uses_findall(clauses):
    for h, b in clauses:
        for g in body_goals(b):
            if _mentions(g, 'findall'):
                return True
    return False


def _mentions(t, name):
    if t[0] == 'f':
        return t[1] == name or any(_mentions(a, name) for a in t[2])
    return False


def program_uses(clauses, names):
    for h, b in clauses:
        for g in body_goals(b):
            for n in names:
                if (g[0] in ('a', 'f') and g[1] == n) or _mentions(g, n):
                    return True
    return False


def ref_both_readings(program, q, **kw):
    """runs R in the copy and the share reading of findall/3; returns (status, answers, interp) of the copy
    reading, or ('findall-readings-differ', ...) when the readings disagree on answers or final database"""
    a = run_ref(program, q, copy=True, **kw)
    b = run_ref(program, q, copy=False, **kw)
    if a[0] == 'unspec' or b[0] == 'unspec':
        return ('unspec', [], a[2])
    if a[0] != b[0] or a[1] != b[1] or a[2].db() != b[2].db():
        return ('findall-readings-differ', a[1], a[2])
    return a


def impl_answers(code, q, ref_status, ref_answers, ref_steps, setup=None, yp_out=None, between=None):
    """loads code into a fresh budgeted engine and enumerates q.  Returns ('ok', status, answers) or
    ('exc', signature, message)"""
    k = len(ref_answers) + (1 if ref_status == 'done' else 0)
    try:
        yp = impl.BudgetYP(10 * ref_steps + 500)
        if yp_out is not None:
            yp_out.append(yp)
        if isinstance(code, list):
            for i, c in enumerate(code):
                yp.load_script_from_string(c, overwrite=(i == 0))
        elif code:
            yp.load_script_from_string(code)
        if setup:
            setup(yp)
        st, out = impl.run_query(yp, q, max(k, 1), between=between)
        return ('ok', st, out)
    except impl.ImplWork:
        return ('work', 'term-copying-work-budget', '')
    except impl.ImplBudget:
        return ('exc', 'impl-does-not-terminate', 'more than 10x+500 the calls the reference needed')
    except Budget as e:
        return ('exc', 'impl-budget:%s' % e, str(e))
    except RecursionError as e:
        return ('exc', 'RecursionError', str(e)[:200])
    except Exception as e:     # noqa
        return ('exc', impl.exc_signature(e), '%s: %s' % (type(e).__name__, str(e)[:300]))


def compare_answers(ref_status, ref, ist, out):
    """returns None if they agree, else a signature string"""
    if ref_status == 'done':
        if out == ref and ist == 'done':
            return None
        if ist != 'done' or len(out) > len(ref):
            if out[:len(ref)] == ref:
                return 'extra-answer'
            return 'answers-differ'
        if out == ref[:len(out)]:
            return 'missing-answer'
        if sorted(map(repr, out)) == sorted(map(repr, ref)):
            return 'answers-in-different-order'
        return 'answers-differ'
    if out[:len(ref)] == ref:
        return None
    return 'answers-differ(prefix)'


def compile_case(text):
    """returns ('ok', code) or ('exc', signature, message)"""
    try:
        code = impl.compile_text(text)
        compile(code, '<generated>', 'exec')
        return ('ok', code)
    except RecursionError as e:
        return ('exc', 'compile:RecursionError', str(e)[:200])
    except Exception as e:     # noqa
        return ('exc', 'compile:' + impl.exc_signature(e), '%s: %s' % (type(e).__name__, str(e)[:300]))


def answers_view(ans):
    return [show(a) for a in ans]


def clause_features(clauses):
    f = set()
    for h, b in clauses:
        if h[0] == 'a':
            f.add('arity0')
        hv = []
        if h[0] == 'f':
            for a in h[2]:
                vs = term_vars(a, [])
                for v in vs:
                    if v in hv:
                        f.add('repeated-head-var')
                hv.extend(vs)
                if a[0] == 'f' and len(set(term_vars(a, []))) < _count_vars(a):
                    f.add('repeated-head-var')
        ks = body_kinds(b)
        if 'fail' in ks and ',' in ks:
            f.add('goal-then-fail')
        for k in ks:
            if k in ('cut', ';', '->', 'not', 'ite'):
                f.add('has-' + k)
    return f


def _count_vars(t):
    if t[0] == 'v':
        return 1
    if t[0] == 'f':
        return sum(_count_vars(a) for a in t[2])
    return 0


def has_aliasing(ans):
    """an answer in which the same unbound variable occurs twice"""
    for a in ans:
        if _count_vars(a) > len(term_vars(a, [])):
            return True
    return False


# ---------------------------------------------------------------- structural shrinking of program cases
def shrink_program_case(case, retext):
    """candidates: fewer queries, fewer clauses, simpler bodies, simpler terms; text re-printed plainly"""
    clauses = tt(case['clauses'])
    queries = tt(case['queries'])

    def mk(cl, qs):
        c = dict(case)
        c['clauses'] = cl
        c['queries'] = qs
        c['text'] = retext(cl)
        return c
    if case.get('text') != retext(clauses):
        yield mk(clauses, queries)
    if len(queries) > 1:
        for i in range(len(queries)):
            yield mk(clauses, (queries[i],))
    for i in range(len(clauses)):
        yield mk(clauses[:i] + clauses[i + 1:], queries)
    for i, (h, b) in enumerate(clauses):
        for b2 in _smaller_bodies(b):
            yield mk(clauses[:i] + ((h, b2),) + clauses[i + 1:], queries)
    for i, (h, b) in enumerate(clauses):
        for h2 in _smaller_terms(h, top=True):
            yield mk(clauses[:i] + ((h2, b),) + clauses[i + 1:], queries)
    for i, q in enumerate(queries):
        for q2 in _smaller_terms(q, top=True):
            yield mk(clauses, queries[:i] + (q2,) + queries[i + 1:])


def _smaller_bodies(b):
    k = b[0]
    if k in (',', ';', '->'):
        yield b[1]
        yield b[2]
        for x in _smaller_bodies(b[1]):
            yield (k, x, b[2])
        for x in _smaller_bodies(b[2]):
            yield (k, b[1], x)
    elif k == 'not':
        yield b[1]
        for x in _smaller_bodies(b[1]):
            yield ('not', x)
    elif k == 'call':
        yield ('true',)
        for t in _smaller_terms(b[1], top=True):
            yield ('call', t)
    elif k in ('fail', 'cut'):
        yield ('true',)


def _smaller_terms(t, top=False):
    if t[0] == 'f':
        if not top:
            yield ('a', 'a')
            for a in t[2]:
                yield a
        for i, a in enumerate(t[2]):
            for a2 in _smaller_terms(a):
                yield ('f', t[1], t[2][:i] + (a2,) + t[2][i + 1:])
    elif t[0] == 'i' and not top:
        yield ('a', 'a')
    elif t[0] == 'a' and not top and t[1] != 'a':
        yield ('a', 'a')


def plain_text(clauses):
    return gen.program_text(clauses)


# ---------------------------------------------------------------- oracle self-test shared by program props
def oracle_selftest(tier, n_sto=2000):
    from ..corpus import run_corpus
    n, failures = run_corpus()
    if failures:
        raise HarnessError('reference interpreter fails its conformance corpus: ' + '; '.join(failures[:3]))
    return {'conformance_corpus_cases': n, 'conformance_failures': 0, 'engines': ['R (recursive)', 'M (explicit stack)']}


# ---------------------------------------------------------------- generic program differential
class ProgramDiff(Prop):
    cfg = gen.Cfg
    nqueries = 3
    compare_db = False          # also compare the final fact database (programs with assert/retract)
    two_readings = False        # run R in both findall readings and discard cases where they differ
    crosscheck = {'quick': 8, 'thorough': 1}   # every n-th case is also run on the second reference engine
    answer_limit = ANSWER_LIMIT
    ref_steps = 20000
    ref_depth = 60
    genome = {'quick': 400, 'thorough': 400}
    full_parens_choice = False  # C06: print bodies fully parenthesised in half of the cases
    extra_clauses = ()          # fixed helper clauses appended to every program
    dyn_facts = False           # sometimes assert facts for the program's own predicates before the query
    split_scripts = False       # sometimes load the program as two scripts (the second with overwrite=False): combined definitions

    def selftest(self, tier):
        self._tier = tier
        return oracle_selftest(tier)

    def decode(self, src):
        preds, clauses = gen.gen_program(src, self.cfg)
        clauses = list(clauses) + list(self.extra_clauses)
        queries = [self.gen_query(src, preds, clauses) for _ in range(self.nqueries)]
        full = bool(self.full_parens_choice and src.n(2) == 1)
        dyn = []
        if self.dyn_facts and src.n(3) == 2:
            keys = [(h[1], len(h[2]) if h[0] == 'f' else 0) for h, _ in clauses]
            for _ in range(1 + src.n(3)):
                name, n = src.pick(keys)
                dyn.append(('f', name, tuple(gen.gen_term(src, [], self.cfg, 1) for _ in range(n))) if n else ('a', name))
        text = gen.program_text(clauses, src, full=full)
        case = {'text': text, 'clauses': clauses, 'queries': queries}
        if dyn:
            case['dyn'] = dyn
        if self.split_scripts and len(clauses) >= 2 and src.n(5) == 1:
            # the clauses up to here are one script, the rest a second one loaded with overwrite=False: predicates with
            # clauses on both sides become combined definitions (each with its own cut scope)
            case['split'] = 1 + src.n(len(clauses) - 1)
            key = lambda c: (c[0][1], len(c[0][2]) if c[0][0] == 'f' else 0)      # noqa: E731
            inside = [i for i in range(1, len(clauses)) if key(clauses[i - 1]) == key(clauses[i])]
            if inside and src.n(3):
                case['split'] = src.pick(inside)          # between two clauses of one predicate
        return case


    def gen_query(self, src, preds, clauses):
        return gen.gen_query(src, preds, self.cfg, clauses)

    def sample_view(self, case):
        v = {'text': case['text'], 'queries': [show(tt(q)) for q in case['queries']]}
        if case.get('split'):
            v['loaded_as_two_scripts_split_after_clause'] = case['split']
        if case.get('host_noise'):
            v['host_interns_unused_atoms_between_answers'] = case['host_noise']
        if case.get('dyn'):
            v['asserted_before_the_query'] = [show(tt(t)) for t in case['dyn']]
        return v

    def case_key(self, case):
        return case['text'] + '\x00' + repr(case['queries']) + repr(case.get('dyn') or '') + repr(case.get('split') or '') + repr(case.get('host_noise') or '')

    def shrink_candidates(self, case):
        return shrink_program_case(case, plain_text)

    def ref_run(self, clauses, q, **kw):
        kw.setdefault('max_steps', self.ref_steps)
        kw.setdefault('max_depth', self.ref_depth)
        kw.setdefault('limit', self.answer_limit)
        r = run_ref(clauses, q, **kw)
        if 'findall-nonground-instance' in r[2].events:
            return ('findall-nonground-instance', r[1], r[2])
        return r

    def db_keys(self, it):
        return set(it.facts.keys()) | set(gen.DBPREDS)

    _n = 0

    def decide(self, case):
        clauses = tt(case['clauses'])
        queries = tt(case['queries'])
        comp = compile_case(case['text'])
        feats = clause_features(clauses)
        if comp[0] == 'exc':
            return FAIL(comp[1], {'text': case['text'], 'error': comp[2]})
        code = comp[1]
        split = min(case.get('split') or 0, len(clauses) - 1)
        program = clauses
        if split >= 1:
            parts = [clauses[:split], clauses[split:]]
            code = []
            for part in parts:
                c2 = compile_case(gen.program_text(part))
                if c2[0] == 'exc':
                    return FAIL(c2[1], {'text': gen.program_text(part), 'error': c2[2]})
                code.append(c2[1])
            program = {}
            for part in parts:
                for key, defs in as_program(part).items():
                    program.setdefault(key, []).extend(defs)
        classes = set()
        nontrivial = False
        decided = 0
        self._n += 1
        dyn = tt(case.get('dyn') or [])

        def ref_setup(it):
            for t in dyn:
                it.assert_fact(t)

        def impl_setup(yp):
            for t in dyn:
                vm = {}
                yp.assert_fact(yp.atom(t[1]), [impl.to_engine(yp, x, vm) for x in (t[2] if t[0] == 'f' else ())])
        queries = list(queries)
        n_original = len(queries)
        qi = -1
        while qi + 1 < len(queries):
            qi += 1
            q = queries[qi]
            st, ref, it = self.ref_run(program, q, setup=ref_setup if dyn else None)
            if st == 'unspec':
                classes.add('query-unspecified')
                continue
            if st == 'findall-nonground-instance':
                classes.add('query-findall-nonground-instance(unspecified)')
                continue
            if st == 'budget' and not ref:
                classes.add('unbounded-no-answer')
                continue
            every = self.crosscheck.get(getattr(self, '_tier', 'quick'), 8)
            if st == 'done' and self._n % every == 0:
                st2, ref2, m2 = run_ref(program, q, engine='M', max_steps=self.ref_steps, max_depth=self.ref_depth,
                                        limit=self.answer_limit, setup=(lambda m: [m.facts.setdefault((t[1], len(t[2]) if t[0] == 'f' else 0), []).append(__import__('harness.refint', fromlist=['Fact']).Fact(m.rename(t, {}))) for t in dyn]) if dyn else None)
                if st2 == 'done' and (ref2 != ref or (self.compare_db and m2.db() != it.db())):
                    raise HarnessError('the two reference engines disagree on %r ?- %s: R %r M %r'
                                       % (case['text'], show(q), answers_view(ref), answers_view(ref2)))
                classes.add('crosschecked-second-engine')
            yps = []
            r = impl_answers(code, q, st, ref, it.steps, yp_out=yps, setup=impl_setup if dyn else None,
                             between=impl.host_noise(case['host_noise']) if case.get('host_noise') else None)
            if case.get('host_noise'):
                classes.add('host-interns-%d-atoms-between-answers' % case['host_noise'])
            if r[0] == 'work':
                classes.add('query-too-expensive(term-copying work budget)')
                continue
            decided += 1
            if r[0] == 'exc':
                return FAIL('exception:' + r[1], {'text': case['text'], 'query': show(q), 'error': r[2],
                                                   'expected': answers_view(ref)}, classes)
            sig = compare_answers(st, ref, r[1], r[2])
            if sig:
                return FAIL(sig, {'text': case['text'], 'query': show(q), 'expected': answers_view(ref),
                                  'observed': answers_view(r[2]), 'reference_status': st}, classes)
            if self.compare_db and st == 'done':
                try:
                    got = impl.read_db(yps[0], self.db_keys(it))
                except Exception as e:   # noqa
                    return FAIL('exception-reading-database:' + impl.exc_signature(e), {'text': case['text'], 'query': show(q)})
                exp = [[k, v] for k, v in it.db()]
                got = json_norm(got)
                if got != json_norm(exp):
                    return FAIL('final-database-differs', {'text': case['text'], 'query': show(q),
                                                           'expected_db': db_view(exp), 'observed_db': db_view(got)}, classes)
            classes.add('answers:%s' % ('0' if not ref else '1' if len(ref) == 1 else 'many'))
            if qi < n_original and st == 'done':
                more = self.derived_queries(q, ref)
                if more:
                    classes.add('derived-queries')
                    queries.extend(more[:4])
            if st != 'done':
                classes.add('unbounded-prefix')
            nt = self.nontrivial(clauses, q, st, ref, it, feats, classes)
            nontrivial = nontrivial or nt
        if decided == 0:
            return DISCARD('all queries unspecified or unbounded')
        classes |= {'feat:' + f for f in feats}
        if split >= 1:
            classes.add('loaded-as-two-scripts')
            if any(len(v) > 1 for v in program.values()):
                classes.add('combined-definitions')
        return OK(nontrivial, sorted(classes))

    def derived_queries(self, q, ref):
        """follow-up queries computed from the reference's answers to q (decided like any other query)"""
        return []

    def nontrivial(self, clauses, q, st, ref, it, feats, classes):
        if st != 'done' or it.steps < 3:
            return False
        ok = False
        if len(ref) >= 2:
            ok = True
        if it.maxdepth_seen >= 2:
            classes.add('recursion-depth>=2')
            ok = True
        if has_aliasing(ref):
            classes.add('aliasing-in-answer')
            ok = True
        if feats & {'repeated-head-var', 'goal-then-fail', 'arity0'}:
            ok = True
        return ok


def json_norm(x):
    import json
    return json.loads(json.dumps(x))


def db_view(db):
    return [[k, [show(tt(f)) for f in facts]] for k, facts in db]

"""Base class of the history properties (C04, C07, C08, C14): a history is decoded from the genome against the
evolving state (so operations are sensible), executed on the reference world and on the implementation, and the
observation sequences compared."""
from ..terms import tt, show
from ..runner import Prop, OK, DISCARD, FAIL
from .. import history as H
from .. import gen
from . import common as C


class HistoryProp(Prop):
    genome = {'quick': 300, 'thorough': 300}
    ref_steps = 4000
    min_decided = 3
    shrink_budget = 150
    skip_undecided = False       # only for histories whose queries are side-effect free
    track_fresh = False          # C13: unbound variables in answers must be new objects at every use

    def selftest(self, tier):
        self._tier = tier
        return C.oracle_selftest(tier)

    def sample_view(self, case):
        return {'history': [H.show_op(op) for op in case['ops']]}

    def case_key(self, case):
        import json
        return json.dumps(case['ops'], sort_keys=True, default=str)

    def keep_op(self, op):
        """ops that the structural shrinker must not drop"""
        return op[0] == 'engine'

    def shrink_candidates(self, case):
        ops = case['ops']
        # drop whole tails first, then single operations
        n = len(ops)
        for cut in (n // 2, n - n // 4, n - 1):
            if 0 < cut < n:
                yield dict(case, ops=ops[:cut])
        for i in range(n - 1, -1, -1):
            if not self.keep_op(ops[i]):
                yield dict(case, ops=ops[:i] + ops[i + 1:])

    def classify(self, case, ops, robs, ref):
        """returns (nontrivial, classes)"""
        return True, []

    def extra_decide(self, case, ops, robs, iobs, ref):
        """additional oracle on a history that agreed with the reference; returns FAIL or None"""
        return None

    def decide(self, case):
        ops = case['ops']
        lockstep = bool(case.get('lockstep_threads'))
        n, robs, iobs, failure, ref = H.run_history(ops, self.ref_steps, skip_undecided=self.skip_undecided, track_fresh=self.track_fresh,
                                                    impl_world=H.ThreadedImplWorld if lockstep else H.SharedFileLoadImplWorld if case.get('load_route') == 'shared-file' else H.FileLoadImplWorld if case.get('load_route') == 'file' else (H.OwnAtomsImplWorld if case.get('cached_atoms') == 'own' else H.CachedAtomsImplWorld) if case.get('cached_atoms') else None)
        if failure is not None:
            kind, i, op, r, o = failure
            if lockstep:
                kind = 'lockstep-threads:' + kind
            return FAIL(kind, {'history': [H.show_op(x) for x in ops[:i + 1]], 'failing_op': H.show_op(op),
                               'expected': H.show_obs(r), 'observed': H.show_obs(o) if not isinstance(o, str) or True else o})
        if n < self.min_decided:
            return DISCARD('reference undecided (budget/unspecified) after %d operations' % n)
        extra = self.extra_decide(case, ops[:n], robs, iobs, ref)
        if extra is not None:
            return extra
        nt, classes = self.classify(case, ops[:n], robs, ref)
        if n < len(ops):
            classes = list(classes) + ['reference-stopped-early(prefix compared)']
        if lockstep:
            classes = list(classes) + ['lockstep-threads(one thread per engine)']
        if case.get('load_route') == 'file':
            classes = list(classes) + ['scripts-loaded-through-load_script_from_file']
        if case.get('load_route') == 'shared-file':
            classes = list(classes) + ['scripts-loaded-through-load_script_from_file(one path for all engines)']
        if case.get('cached_atoms'):
            classes = list(classes) + ['atom-objects-kept-across-clear']
        return OK(nt, sorted(set(classes)))

"""C19 - the yldpc command line equals the library; debug options only add comments."""
import os
import sys
import shutil
import tempfile
import itertools
import subprocess
from ..runner import Prop, OK, DISCARD, FAIL, HarnessError
from .. import gen
from .. import impl

ODD = ['hello world', 'A', "it's", 'é', 'line1\nline2', 'a\rb', 'x\x85y', 'é☃ z', 'f\x0cg', 'v\x0bw', 'tab\tx', '# not a comment', 'a\n# b', '',
       'a\x00b', 'nul\x00', '\x1a', 'e\x1b[0m', 'u\u2028v', 'w\u2029x', 'bs\x08', 'x\x1cy', 'x\x1dy', 'x\x1ey']
CFG = gen.with_cfg(control=frozenset(['cut', ';', 'ite', 'not']), meta=True, library=False, max_clauses=4, min_clauses=1, odd_atoms=ODD)
FLAGS = ['-d', '--debug-parser', '--debug-generator', '--debug-filename']


class OddSrc(gen.Src):
    pass


def strip_comments(s):
    """removes comment lines; a line ends where Python's tokenizer ends it (LF, CR LF or a lone CR)"""
    import re
    return '\n'.join(l for l in re.split(r'\r\n|\r|\n', s) if not l.startswith('#'))


class C19(Prop):
    id = 'C19'
    title = 'The yldpc command line equals the library; debug options only add comments'
    technique = 'differential + metamorphic property-based testing (Hypothesis): command line (click runner in-process, real subprocess for a sample) vs. library, all 16 debug-flag combinations enumerated per case'
    rule = ('1-3 sources (random programs whose quoted atoms often contain newlines, carriage returns, other line '
            'separators, non-ASCII text; some sources malformed at a known line - in the middle of it or at its first character; one case in six names a file twice; some refused by the compiler; some not ending in a line break) x ALL 16 '
            'combinations of -d --debug-parser --debug-generator --debug-filename x output to stdout or -o file (fresh, or an older longer output file already present) x each '
            'source as a file or as "-" (standard input, UTF-8 bytes). Oracles: compile_prolog_from_file of each source file equals compile_prolog_from_string of its text; with no flags the output equals the '
            'concatenation of compile_prolog_from_string of each source in order; for every flag combination the output '
            'with lines starting with # removed equals that (comment-stripped) and is parsable Python; exit status 0 iff '
            'every source compiles; for a syntax error the message names the file ("-" for standard input) and the line '
            'and then the column of the first error (as the library exception carries them). 1 in 12 cases (and every failing one) is repeated through a real "python -m '
            'yldprolog.compiler" subprocess with real pipes. Non-trivial = a source has a newline-like or non-ASCII '
            'character inside a quoted atom, or >= 2 sources, or standard input; distinct = SHA-1 of the sources + modes.')
    assumptions = ['CPython 3.12 of /venv, click 8.5 test runner', 'the error message format is not prescribed beyond: the file name, then the line and the column of the library exception as the next two numbers']
    cases = {'quick': 200, 'thorough': 3000}
    genome = {'quick': 400, 'thorough': 400}
    shards = {'quick': 8, 'thorough': 16}

    def decode(self, src):
        n = 1 + (src.n(3) == 2) + (src.n(5) == 4)
        sources = []
        for i in range(n):
            preds, clauses = gen.gen_program(src, CFG)
            # make odd atoms frequent
            text = gen.program_text(clauses, src)
            if src.n(2):
                text += "odd(%s, %s).\n" % (gen.atom_tokens(src.pick(ODD), None)[0] if False else "'" + src.pick(ODD).replace("'", "\\'") + "'", src.pick(['a', 'X', "'é'"]))
            if src.n(4) == 3:
                # predicates that can never succeed (their generated function has no statement of its own)
                from .c11 import NEVER
                text += ''.join('%s :- %s.\n' % (src.pick(['nv', 'nv2(_)', 'nv3(X, X)']), src.pick(NEVER)) for _ in range(1 + src.n(2)))
            mode = 'ok'
            k = src.n(8)
            errline = None
            if k == 7:
                errline = text.count('\n') + 1
                # the offending token in the middle of a line, or as the very first character of one (column 0)
                text += src.pick(['oops( .\n', 'oops( .\n', ') oops.\n', '$ x.\n', 'b c.\n', '. b.\n', '] .\n', '   , x.\n']) + 'after(a).\n'
                mode = 'syntax-error'
            elif k == 6:
                text += "'bad head'(a).\n"
                mode = 'refused'
            elif k == 4:
                text = '\ufeff' + text          # a byte order mark: not in the lexicon, for files and for standard input alike
                mode = 'bom'
            elif k == 3:
                # directives are compiled to nothing, whatever they contain - also predicate indicators name/arity
                dv = src.pick([":- dynamic(seen/1).\n", ":- import('', [eval/1]).\n", ":- d.\n:- export(p/2).\n",
                               # directives with variables and anonymous variables, with lists, with control constructs
                               ":- initialization(main(_)).\n", ":- foo(_, X, _), bar(X).\n", ":- [helpers].\n",
                               ":- ( a(_) -> b ; \\+ c(_G) ).\n", ":- x(_), !.\n"])
                where = src.n(3)
                if where == 0:
                    text = dv + text
                elif where == 1:
                    text = text + dv
                else:
                    lines = text.split('.\n')
                    cut = src.n(len(lines))
                    text = '.\n'.join(lines[:cut]) + ('.\n' if cut else '') + dv + '.\n'.join(lines[cut:])
                text += src.pick(['', 'w(_, _).\n', 'w(A, _) :- v(_, A), \\+ u(_).\n'])
                mode = 'directive'
            elif k == 5:
                # the text does not end in a line break: after a full stop, or inside a % comment
                text = text.rstrip('\n') + src.pick(['', ' % remark', '\n% end', ' '])
                mode = 'no-final-newline'
            sources.append({'text': text, 'mode': mode, 'errline': errline, 'stdin': False})
        if src.n(3) == 2:
            sources[src.n(n)]['stdin'] = True
        if src.n(6) == 0:
            # one of the files is named twice on the command line: its code is written twice, in the order given
            j = src.n(n)
            sources.insert(j + 1 + src.n(len(sources) - j), dict(sources[j], stdin=False, same_file_as=j))
        return {'sources': sources, 'outfile': src.n(2) == 1, 'subprocess': src.n(12) == 11, 'stale_outfile': src.n(3)}

    def case_key(self, case):
        return repr([(s['text'], s['stdin']) for s in case['sources']]) + repr(case['outfile'])

    def sample_view(self, case):
        return {'sources': [{'text': s['text'][:500], 'mode': s['mode'], 'stdin': s['stdin']} for s in case['sources']], 'outfile': case['outfile']}

    def shrink_candidates(self, case):
        ss = case['sources']
        if len(ss) > 1:
            for i in range(len(ss)):
                yield dict(case, sources=ss[:i] + ss[i + 1:])
        for i, s in enumerate(ss):
            lines = s['text'].split('.\n')
            for j in range(len(lines) - 1):
                t = '.\n'.join(lines[:j] + lines[j + 1:])
                yield dict(case, sources=ss[:i] + [dict(s, text=t, errline=None)] + ss[i + 1:])
        if case['outfile']:
            yield dict(case, outfile=False)

    def lib(self, text):
        try:
            return impl.compile_text(text), None
        except Exception as e:      # noqa
            return None, e

    def invoke(self, args, stdin_bytes, use_subprocess, cwd):
        if use_subprocess:
            env = dict(os.environ, PYTHONPATH=os.path.join(impl.REPO, 'src'), PYTHONDONTWRITEBYTECODE='1', PYTHONIOENCODING='utf-8')
            p = subprocess.run([sys.executable, '-m', 'yldprolog.compiler'] + args, input=stdin_bytes or b'', stdout=subprocess.PIPE,
                               stderr=subprocess.PIPE, cwd=cwd, env=env)
            return p.returncode, p.stdout.decode('utf8', 'replace'), p.stderr.decode('utf8', 'replace')
        from click.testing import CliRunner
        runner = CliRunner()
        old = os.getcwd()
        os.chdir(cwd)
        try:
            r = runner.invoke(impl.compiler.main, args, input=stdin_bytes)
        finally:
            os.chdir(old)
        err = r.stderr if hasattr(r, 'stderr') else ''
        if r.exception is not None and not isinstance(r.exception, SystemExit):
            err += '\n%s: %s' % (type(r.exception).__name__, r.exception)
        return r.exit_code, r.stdout, err

    def decide(self, case):
        sources = case['sources']
        tmp = tempfile.mkdtemp(prefix='verif-c19-')
        try:
            return self._decide(case, sources, tmp)
        finally:
            shutil.rmtree(tmp, ignore_errors=True)

    def _decide(self, case, sources, tmp):
        args = []
        stdin_bytes = None
        libs = []
        for i, s in enumerate(sources):
            j = s.get('same_file_as')
            if j is not None and j < len(args) and args[j] != '-':
                args.append(args[j])
                libs.append(libs[j])
                continue
            if s['stdin'] and stdin_bytes is None:
                args.append('-')
                stdin_bytes = s['text'].encode('utf8')
            else:
                fn = 'src%d.prolog' % i
                with open(os.path.join(tmp, fn), 'w', encoding='utf8', newline='') as f:
                    f.write(s['text'])
                args.append(fn)
                # the file entry point of the library must agree with the string entry point
                a1, e1 = self.lib(s['text'])
                try:
                    a2, e2 = impl.compiler.compile_prolog_from_file(os.path.join(tmp, fn), impl.Ctx), None
                except Exception as e:      # noqa
                    a2, e2 = None, e
                if (a1 is None) != (a2 is None) or (a1 is not None and a1 != a2):
                    return FAIL('compile_prolog_from_file-differs-from-compile_prolog_from_string',
                                {'text': s['text'], 'from_string': (a1 or repr(e1))[-400:], 'from_file': (a2 or repr(e2))[-400:]})
            libs.append(self.lib(s['text']))
        all_ok = all(e is None for c, e in libs)
        expected = ''.join(c for c, e in libs if c is not None) if all_ok else None
        detail = {'sources': [{'arg': a, 'text': s['text'], 'mode': s['mode']} for a, s in zip(args, sources)], 'outfile': case['outfile']}
        classes = set()
        modes = [False, True] if case.get('subprocess') else [False]
        for use_sub in modes:
            for combo in itertools.product([False, True], repeat=4):
                flags = [f for f, on in zip(FLAGS, combo) if on]
                a = list(flags)
                if case['outfile']:
                    a += ['-o', 'out.py']
                    if os.path.exists(os.path.join(tmp, 'out.py')):
                        os.remove(os.path.join(tmp, 'out.py'))
                    if case.get('stale_outfile') and expected is not None:
                        # an older, longer output file is already there: it must be replaced, not kept
                        with open(os.path.join(tmp, 'out.py'), 'w', encoding='utf8', newline='') as f:
                            f.write(expected + ('def stale_1(arg1):\n  yield False\n' if case['stale_outfile'] == 1 else '# older\n'))
                a += args
                rc, out, err = self.invoke(a, stdin_bytes, use_sub, tmp)
                d = dict(detail, flags=flags, via='subprocess' if use_sub else 'click runner', exit_status=rc, stderr=err[-600:])
                if case['outfile']:
                    try:
                        out = open(os.path.join(tmp, 'out.py'), encoding='utf8', newline='').read()
                    except FileNotFoundError:
                        out = None
                if all_ok:
                    if rc != 0:
                        return FAIL('nonzero-exit-although-every-source-compiles', d)
                    if out is None:
                        return FAIL('no-output-file', d)
                    if not flags and out != expected:
                        return FAIL('output-differs-from-library', dict(d, expected=expected[-800:], observed=out[-800:]))
                    if strip_comments(out) != strip_comments(expected):
                        return FAIL('debug-flags-change-the-code', dict(d, expected=strip_comments(expected)[-800:], observed=strip_comments(out)[-800:]))
                    try:
                        compile(out, '<cli output>', 'exec')
                        compile(strip_comments(out), '<cli output>', 'exec')
                    except (SyntaxError, ValueError) as e:
                        return FAIL('output-not-parsable', dict(d, error=str(e)))
                else:
                    if rc == 0:
                        return FAIL('zero-exit-although-a-source-does-not-compile', d)
                    first_bad = [i for i, (c, e) in enumerate(libs) if e is not None][0]
                    s = sources[first_bad]
                    if s['mode'] == 'syntax-error' and s['errline'] is not None and type(libs[first_bad][1]).__name__ == 'PrologSyntaxError':
                        want = '%s:%d:' % (args[first_bad], s['errline'])
                        if want not in err and want not in (out or ''):
                            return FAIL('syntax-error-message-lacks-file-and-line', dict(d, wanted_substring=want))
                        # ... and the position: the line and the column the library's exception carries follow the file name
                        exc = libs[first_bad][1]
                        import re
                        where = err + '\n' + (out or '')
                        idx = where.find(args[first_bad] + ':')
                        nums = re.findall(r'\d+', where[idx + len(args[first_bad]): idx + len(args[first_bad]) + 60]) if idx >= 0 else []
                        if nums[:2] != [str(exc.line), str(exc.column)]:
                            return FAIL('syntax-error-message-lacks-the-position', dict(d, wanted_line=exc.line, wanted_column=exc.column))
                        classes.add('syntax-error-reported' + ('-at-column-0' if exc.column == 0 else ''))
            if use_sub:
                classes.add('via-subprocess')
        text_all = ''.join(s['text'] for s in sources)
        import re
        special = bool(re.search(r"'[^']*[\n\r\x0b\x0c\x85 \x80-\U0010ffff][^']*'", text_all))
        if special:
            classes.add('newline-or-non-ascii-inside-quoted-atom')
        if len(sources) >= 2:
            classes.add('>=2-sources')
        if len(set(args)) < len(args):
            classes.add('a-file-named-twice')
        if stdin_bytes is not None:
            classes.add('stdin')
        classes.add('outfile' if case['outfile'] else 'stdout')
        classes.add('all-compile' if all_ok else 'some-source-fails')
        return OK(special or len(sources) >= 2 or stdin_bytes is not None, sorted(classes))


    def extra_checks(self, tier, seed):
        """every .prolog file of the repository (compiler/test, tests/data) as a single source under all 16 flag
        combinations"""
        import glob
        out = []
        files = sorted(glob.glob(os.path.join(impl.REPO, 'compiler', 'test', '*.prolog')) + glob.glob(os.path.join(impl.REPO, 'tests', 'data', '*.prolog')))
        for fn in files:
            try:
                text = open(fn, encoding='utf8', newline='').read()
            except Exception:      # noqa
                continue
            case = {'sources': [{'text': text, 'mode': 'repository-file:' + os.path.relpath(fn, impl.REPO), 'errline': None, 'stdin': False}],
                    'outfile': False, 'subprocess': False, 'stale_outfile': 0}
            out.append((case, self.decide(case)))
        return out


PROP = C19()

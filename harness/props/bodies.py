"""Bounded-exhaustive enumeration of clause bodies (C05, C06): every tree with <= n leaves over the leaf alphabet
{m0, m1, m2, true, fail, !} (mK(V) = fact table with K solutions binding its own variable) and the connectives
',' ';' '->' (cuts only in transparent positions), optionally with one node wrapped in \\+; placed as the middle
clause of a three-clause predicate that is called between two alternatives-generating goals, so that every
answer names the path taken."""
import itertools

LEAVES = ['m0', 'm1', 'm2', 'true', 'fail', 'cut', 'is1', 'r2']
# is1 = is1(Vprev): a test of the variable bound by the nearest preceding m-leaf (so conditions can depend on
# earlier bindings); r2 = m2(Vprev): a second generator on that same variable (so bindings made - or wrongly kept -
# by an earlier construct are observable)
OPS = [',', ';', '->']


def shapes(n):
    if n == 1:
        yield 'L'
        return
    for k in range(1, n):
        for l in shapes(k):
            for r in shapes(n - k):
                yield (l, r)


def build(sh, li, oi, state=None):
    if state is None:
        state = {'prev': None}
    if sh == 'L':
        kind, idx = next(li)
        if kind in ('true', 'fail', 'cut'):
            return (kind,)
        if kind in ('is1', 'r2'):
            v = state['prev'] if state['prev'] is not None else idx
            return ('call', ('f', 'is1' if kind == 'is1' else 'm2', (('v', v),)))
        state['prev'] = idx
        return ('call', ('f', kind, (('v', idx),)))
    op = next(oi)
    l = build(sh[0], li, oi, state)
    r = build(sh[1], li, oi, state)
    return (op, l, r)


def cut_ok(b, transparent=True):
    k = b[0]
    if k == 'cut':
        return transparent
    if k in ('true', 'fail', 'call'):
        return True
    if k == 'not':
        return cut_ok(b[1], False)
    if k == ',':
        return cut_ok(b[1], transparent) and cut_ok(b[2], transparent)
    if k == ';':
        if b[1][0] == '->':
            return cut_ok(b[1][1], False) and cut_ok(b[1][2], transparent) and cut_ok(b[2], transparent)
        return cut_ok(b[1], transparent) and cut_ok(b[2], transparent)
    if k == '->':
        return cut_ok(b[1], False) and cut_ok(b[2], transparent)
    raise ValueError(b)


def negations(b):
    yield b

    def rec(b):
        yield ('not', b)
        yield ('not', ('not', b))
        if b[0] in (',', ';', '->'):
            for x in rec(b[1]):
                yield (b[0], x, b[2])
            for x in rec(b[2]):
                yield (b[0], b[1], x)
    yield from rec(b)


def bodies(n, with_neg):
    for sh in shapes(n):
        for leaves in itertools.product(LEAVES, repeat=n):
            for ops in itertools.product(OPS, repeat=n - 1):
                b = build(sh, iter([(k, i) for i, k in enumerate(leaves)]), iter(ops))
                for b2 in (negations(b) if with_neg else [b]):
                    if cut_ok(b2):
                        yield n, b2


def has(b, kinds):
    if b[0] in kinds:
        return True
    if b[0] in (',', ';', '->'):
        return has(b[1], kinds) or has(b[2], kinds)
    if b[0] == 'not':
        return has(b[1], kinds)
    return False


def program_for(body, n):
    vs = tuple(('v', i) for i in range(n))
    W, W2 = ('v', 90), ('v', 91)
    fact = lambda name, *a: (('f', name, tuple(a)), ('true',))   # noqa: E731
    clauses = [fact('m1', ('i', 1)), fact('m2', ('i', 1)), fact('m2', ('i', 2)), fact('w', ('i', 1)), fact('w', ('i', 2)), fact('is1', ('i', 1)),
               (('f', 't', tuple(('a', 'y') for _ in range(n))), ('true',)),
               (('f', 't', vs), body),
               (('f', 't', tuple(('a', 'z') for _ in range(n))), ('true',)),
               (('f', 'top', (W,) + vs + (W2,)),
                (',', ('call', ('f', 'w', (W,))), (',', ('call', ('f', 't', vs)), ('call', ('f', 'w', (W2,))))))]
    q = ('f', 'top', tuple(('v', 'Q%d' % i) for i in range(n + 2)))
    return clauses, q

"""C20 - Python predicates are interchangeable with compiled ones."""
import gc
from ..terms import tt, show, canon, term_vars
from ..runner import OK, DISCARD, FAIL
from .. import gen
from .. import impl
from .. import history as H
from . import common as C


class Boom(Exception):
    pass


class BoomType(TypeError):
    pass


class BoomKey(KeyError):
    pass


class BoomRuntime(RuntimeError):
    pass


class BoomYP(impl.engine.YPException):
    """a Python predicate may well raise the engine's own exception class (or a subclass) for its own errors"""


BOOMS = [Boom, BoomType, TypeError, ValueError, BoomKey, BoomRuntime, AttributeError, BoomYP, impl.engine.YPException]


class C20(C.ProgramDiff):
    id = 'C20'
    title = 'Python predicates are interchangeable with compiled ones'
    technique = 'metamorphic + differential property-based testing: all-compiled engine vs. engine with fact predicates re-implemented as registered Python generators vs. reference interpreter'
    rule = ('random programs with all control constructs and meta-calls; a generated non-empty subset of the FACT '
            'predicates is removed from the text and registered as Python generator functions that unify their '
            'arguments with each row (fresh variables for non-ground rows) and yield a generated True/False per '
            'solution; registration with inferred arity (fixed signature), explicit arity (fixed signature or *args function), inferred arity of a functools.wraps-decorated function, or '
            'variadic (*args, arity=-1); sometimes the predicates are queried once before they are registered; optionally dynamic facts of the same name/arity are asserted beside them; optionally the '
            'function raises an exception (private class, TypeError, ValueError, KeyError / RuntimeError subclasses, AttributeError, YPException of the engine and a subclass of it) at its n-th solution. Oracles: answers of every query on the mixed '
            'engine = answers on the all-compiled engine = reference R; the function saw its arguments in call order '
            'as engine terms reifying to the terms R passes; a raised exception reaches the consumer with the same '
            'class and arguments, the answers before it are a prefix of R\'s, and afterwards every engine variable is '
            'unbound. Non-trivial = the Python predicate was called in R\'s run, some solution yields True, and the '
            'program uses cut / if-then-else / \\+ / meta-calls or has dynamic facts beside the function; distinct = '
            'SHA-1 of text, replaced set, styles, yields and queries.')
    assumptions = ['CPython 3.12 of /venv', 'reference interpreter R', 'exceptions of type StopIteration/GeneratorExit are not generated (PEP 479)']
    cases = {'quick': 2000, 'thorough': 40000}
    cfg = gen.with_cfg(control=frozenset(['cut', ';', 'ite', 'not']), meta=True, library=False, min_clauses=4, max_clauses=10)
    genome = {'quick': 450, 'thorough': 450}

    def decode(self, src):
        preds, clauses = gen.gen_program(src, self.cfg)
        keys = list(dict.fromkeys((h[1], len(h[2]) if h[0] == 'f' else 0) for h, _ in clauses))
        forced = {src.pick(keys) for _ in range(1 + src.n(2))}
        clauses = [(h, ('true',)) if (h[1], len(h[2]) if h[0] == 'f' else 0) in forced else (h, b) for h, b in clauses]
        groups = {}
        for h, b in clauses:
            key = (h[1], len(h[2]) if h[0] == 'f' else 0)
            groups.setdefault(key, []).append((h, b))
        factkeys = [k for k, cl in groups.items() if all(b == ('true',) for _, b in cl)]
        replaced = []
        for k in factkeys:
            if src.n(3) != 0 or not replaced and k == factkeys[-1]:
                rows = [list(h[2]) if h[0] == 'f' else [] for h, _ in groups[k]]
                style = src.pick(['inferred', 'explicit', 'variadic', 'explicit-varargs', 'inferred-wrapped'])
                if style == 'variadic' and any(r['name'] == k[0] and r['style'] == 'variadic' for r in replaced):
                    style = 'explicit'      # one variadic registration per name (a second would replace the first)
                yields = [bool(src.n(2)) for _ in range(1 + src.n(3))]
                replaced.append({'name': k[0], 'arity': k[1], 'rows': rows, 'style': style, 'yields': yields,
                                 'raise_at': (1 + src.n(4)) if src.rare(1, 6) else 0, 'raise_class': src.n(len(BOOMS)),
                                 # the function builds its terms with atoms of its own (another engine instance, kept
                                 # in a closure) instead of asking the running engine for them
                                 'own_atoms': src.n(4) == 3,
                                 # the function is a bound method of an object nobody else refers to; the arity is passed
                                 # as third positional argument instead of by keyword
                                 'bound_method': src.n(5) == 4, 'positional_arity': src.n(3) == 2})
        dyn = []
        if replaced and src.n(3) == 2:
            r = src.pick(replaced)
            for _ in range(1 + src.n(2)):
                args = tuple(gen.gen_term(src, [], self.cfg) for _ in range(r['arity']))
                dyn.append(('f', r['name'], args) if args else ('a', r['name']))
        rk = {(r['name'], r['arity']) for r in replaced}
        mixed = [(h, b) for h, b in clauses if (h[1], len(h[2]) if h[0] == 'f' else 0) not in rk]
        queries = [gen.gen_query(src, preds, self.cfg, clauses) for _ in range(3)]
        for r in replaced:
            if r['raise_at']:
                # the raising predicate below findall/3, once/1 or call/N: the exception must still reach the consumer
                args = tuple(gen.QVARS[i % 3] if i < 3 else ('v', 'Q%d' % i) for i in range(r['arity']))
                goal = ('f', r['name'], args) if args else ('a', r['name'])
                queries.append(src.pick([('f', 'findall', (args[0] if args else ('a', 'x'), goal, ('v', 'Q9'))),
                                         ('f', 'call', (goal,)), ('f', 'once', (goal,)),
                                         ('f', 'findall', (('a', 'x'), goal, ('v', 'Q9')))]))
                break
        return {'clauses': clauses, 'text': gen.program_text(clauses), 'mixed_text': gen.program_text(mixed) if mixed else '',
                'replaced': replaced, 'dyn': dyn, 'queries': queries, 'probe_first': src.n(3) == 2}

    def sample_view(self, case):
        return {'text': case['text'], 'python_predicates': [{k: (v if k != 'rows' else [[show(tt(x)) for x in r] for r in v]) for k, v in r.items()} for r in case['replaced']],
                'dynamic_facts': [show(tt(d)) for d in case['dyn']], 'queries': [show(tt(q)) for q in case['queries']]}

    def case_key(self, case):
        return repr((case['text'], case['replaced'], case['dyn'], case['queries']))

    def shrink_candidates(self, case):
        for c in C.shrink_program_case(case, C.plain_text):
            rk = {(r['name'], r['arity']) for r in c['replaced']}
            cl = tt(c['clauses'])
            groups = {}
            for h, b in cl:
                groups.setdefault((h[1], len(h[2]) if h[0] == 'f' else 0), []).append((h, b))
            # keep the replaced description consistent with the (shrunk) clauses
            newrep = []
            ok = True
            for r in c['replaced']:
                k = (r['name'], r['arity'])
                if k not in groups:
                    continue
                if not all(b == ('true',) for _, b in groups[k]):
                    ok = False
                    break
                r2 = dict(r)
                r2['rows'] = [list(h[2]) if h[0] == 'f' else [] for h, _ in groups[k]]
                newrep.append(r2)
            if not ok:
                continue
            rk = {(r['name'], r['arity']) for r in newrep}
            mixed = [(h, b) for h, b in cl if (h[1], len(h[2]) if h[0] == 'f' else 0) not in rk]
            c['replaced'] = newrep
            c['mixed_text'] = C.plain_text(mixed) if mixed else ''
            yield c
        if case['dyn']:
            yield dict(case, dyn=[])
        for i, r in enumerate(case['replaced']):
            if r['raise_at']:
                rr = list(case['replaced'])
                rr[i] = dict(r, raise_at=0)
                yield dict(case, replaced=rr)

    def decide(self, case):
        clauses = tt(case['clauses'])
        queries = tt(case['queries'])
        replaced = case['replaced']
        dyn = tt(case['dyn'])
        if not replaced:
            return DISCARD('program has no fact predicate to replace')
        vnames = [r['name'] for r in replaced if r['style'] == 'variadic']
        if len(vnames) != len(set(vnames)):
            return DISCARD('two variadic registrations for one name')
        a = C.compile_case(case['text'])
        b = C.compile_case(case['mixed_text']) if case['mixed_text'] else ('ok', '')
        for r in (a, b):
            if r[0] == 'exc':
                return FAIL(r[1], {'text': case['text'], 'error': r[2]})
        feats = C.clause_features(clauses)
        classes = set()
        nontrivial = False
        decided = 0
        watch = {(r['name'], r['arity']) for r in replaced if r['style'] != 'variadic'}

        def ref_setup(it):
            it.watch = set(watch)
            for t in dyn:
                it.assert_fact(t)

        from ..refint import as_program
        rk = {(r['name'], r['arity']) for r in replaced}
        prog = as_program([(h, b) for h, b in clauses if (h[1], len(h[2]) if h[0] == 'f' else 0) not in rk])
        variadic = {}
        for r in replaced:
            rows = [tuple(x) for x in tt(r['rows'])]
            if r['style'] == 'variadic':
                variadic[r['name']] = ('rows', rows)
            else:
                prog[(r['name'], r['arity'])] = [('rows', rows)]
        watch |= {r['name'] for r in replaced if r['style'] == 'variadic'}
        for q in queries:
            st, ref, it = C.run_ref(prog, q, setup=ref_setup, variadic=variadic)
            if 'findall-nonground-instance' in it.events or st == 'unspec':
                classes.add('query-unspecified')
                continue
            if st == 'budget' and not ref:
                continue
            decided += 1

            def setup_dyn(yp):
                for t in dyn:
                    vm = {}
                    yp.assert_fact(yp.atom(t[1]), [impl.to_engine(yp, x, vm) for x in (t[2] if t[0] == 'f' else ())])
            # engine A: everything compiled
            ra = C.impl_answers(a[1], q, st, ref, it.steps, setup=setup_dyn)
            if ra[0] == 'work':
                decided -= 1
                continue
            if ra[0] == 'exc':
                return FAIL('all-compiled:exception:' + ra[1], {'text': case['text'], 'query': show(q), 'error': ra[2]})
            sig = C.compare_answers(st, ref, ra[1], ra[2])
            if sig:
                return FAIL('all-compiled:' + sig, {'text': case['text'], 'query': show(q), 'expected': C.answers_view(ref), 'observed': C.answers_view(ra[2])})
            # engine B: mixed
            log = []
            raising = [r for r in replaced if r['raise_at']]
            counter = {'n': 0}

            def setup_mixed(yp):
                setup_dyn(yp)
                if case.get('probe_first'):
                    # the predicates are looked up once BEFORE they are registered (late registration must still work)
                    for r in replaced:
                        for _ in yp.query(r['name'], [yp.variable() for _ in range(r['arity'])]):
                            break
                    yp._n = 0
                for r in replaced:
                    rows = [tuple(x) for x in tt(r['rows'])]
                    fn = self.make_func(yp, r, rows, log, counter)
                    if r['style'] in ('inferred', 'inferred-wrapped'):
                        yp.register_function(r['name'], fn)
                    elif r['style'] in ('explicit', 'explicit-varargs'):
                        if r.get('positional_arity'):
                            yp.register_function(r['name'], fn, r['arity'])
                        else:
                            yp.register_function(r['name'], fn, arity=r['arity'])
                    elif r.get('positional_arity'):
                        yp.register_function(r['name'], fn, H.variadic_arity(r['name'], r['arity']))
                    else:
                        yp.register_function(r['name'], fn, arity=H.variadic_arity(r['name'], r['arity']))
            before = set(map(id, impl.bound_variables()))
            boom = None
            expected_boom = BOOMS[raising[0].get('raise_class', 0) % len(BOOMS)] if raising else Boom
            try:
                rb = self.run_mixed(b[1], q, st, ref, it.steps, setup_mixed)
            except tuple(BOOMS) as e:
                if not hasattr(e, 'partial'):
                    raise
                boom = e
                rb = ('boom', 'limit', e.partial)
            if rb[0] == 'work':
                decided -= 1
                continue
            if rb[0] == 'exc':
                return FAIL('mixed:exception:' + rb[1], self.detail(case, q, ref, None, rb[2]))
            if boom is not None:
                classes.add('python-predicate-raised')
                allowed = {BOOMS[r.get('raise_class', 0) % len(BOOMS)] for r in raising}
                if type(boom) not in allowed or boom.args[:1] != ('boom',):
                    return FAIL('mixed:exception-altered', self.detail(case, q, ref, None, repr(boom)))
                if rb[2] != ref[:len(rb[2])]:
                    return FAIL('mixed:answers-before-exception-differ', self.detail(case, q, ref, rb[2]))
                gc.collect()
                left = [v for v in impl.bound_variables() if id(v) not in before]
                if left:
                    return FAIL('mixed:variables-bound-after-exception', self.detail(case, q, ref, rb[2], '%d variables still bound' % len(left)))
            else:
                sig = C.compare_answers(st, ref, rb[1], rb[2])
                if sig:
                    return FAIL('mixed:' + sig, self.detail(case, q, ref, rb[2]))
                # arguments in call order, as engine terms
                if st == 'done':
                    exp = [t for t in it.trace]
                    got = log
                    if got != exp:
                        return FAIL('mixed:arguments-differ', self.detail(case, q, ref, rb[2], {'expected_calls': [show(t) for t in exp], 'observed_calls': [show(t) if isinstance(t, tuple) else str(t) for t in got]}))
            classes.add('answers:%s' % ('0' if not ref else '1' if len(ref) == 1 else 'many'))
            for r in replaced:
                classes.add('style:' + r['style'])
            if 'foreign-called' not in it.events and not it.trace:
                classes.add('python-predicate-not-reached')
                continue
            classes.add('python-predicate-called')
            ytrue = any(any(r['yields']) for r in replaced)
            if ytrue:
                classes.add('yields-True')
            ctx = feats & {'has-cut', 'has-;', 'has-ite', 'has-not'} or C.program_uses(clauses, ['call', 'once', 'findall']) or dyn
            if dyn:
                classes.add('dynamic-facts-beside-function')
            if ytrue and ctx and it.trace:
                nontrivial = True
        if decided == 0:
            return DISCARD('all queries unspecified or unbounded')
        return OK(nontrivial, sorted(classes))

    def detail(self, case, q, ref, out, extra=None):
        d = {'text': case['text'], 'mixed_text': case['mixed_text'], 'python_predicates': self.sample_view(case)['python_predicates'],
             'dynamic_facts': [show(tt(x)) for x in case['dyn']], 'query': show(q), 'expected': C.answers_view(ref)}
        if out is not None:
            d['observed'] = C.answers_view(out)
        if extra is not None:
            d['note'] = extra
        return d

    def make_func(self, yp, r, rows, log, counter):
        from yldprolog.engine import unify_arrays, IUnifiable
        yields = r['yields']
        raise_at = r['raise_at']
        name = r['name']

        builder = impl.YP() if r.get('own_atoms') else yp

        def solutions(args):
            seen = {}
            bad = [a for a in args if not isinstance(a, (IUnifiable, int, str))]
            t = ('f', name, tuple(impl.reify(a, seen) for a in args)) if args else ('a', name)
            log.append(canon(t) if not bad else 'non-term argument %r' % (bad,))
            i = 0
            for row in rows:
                if len(row) != len(args):
                    continue
                vmap = {}
                vals = [impl.to_engine(builder, x, vmap) for x in row]
                for _ in unify_arrays(list(args), vals):
                    counter['n'] += 1
                    if raise_at and counter['n'] == raise_at:
                        raise BOOMS[r.get('raise_class', 0) % len(BOOMS)]('boom', counter['n'])
                    yield yields[i % len(yields)]
                    i += 1
        if r['style'] in ('variadic', 'explicit-varargs'):
            def f(*args):
                return solutions(args)
            return f
        names = ['a%d' % i for i in range(r['arity'])]
        if r.get('bound_method') and r['style'] != 'inferred-wrapped':
            src = 'class Table:\n    def f(%s):\n        return solutions([%s])\n' % (', '.join(['self'] + names), ', '.join(names))
            ns = {'solutions': solutions, '__name__': 'userpreds'}      # like functions of an ordinary user module
            exec(src, ns)
            return ns['Table']().f          # the only reference to the object is the bound method itself
        src = 'def f(%s):\n    return solutions([%s])\n' % (', '.join(names), ', '.join(names))
        ns = {'solutions': solutions, '__name__': 'userpreds'}      # like functions of an ordinary user module
        exec(src, ns)
        if r['style'] == 'inferred-wrapped':
            # an ordinary transparent decorator: the arity is that of the wrapped function
            import functools
            inner = ns['f']

            @functools.wraps(inner)
            def wrapper(*args):
                return inner(*args)
            return wrapper
        return ns['f']

    def run_mixed(self, code, q, st, ref, steps, setup):
        k = len(ref) + (1 if st == 'done' else 0)
        out = []
        try:
            yp = impl.BudgetYP(10 * steps + 500)
            if code:
                yp.load_script_from_string(code)
            setup(yp)
            name, args = impl.goal_parts(q)
            vmap = {}
            eargs = [impl.to_engine(yp, a, vmap) for a in args]
            status = 'done'
            g = yp.query(name, eargs)
            try:
                for _ in g:
                    seen = {}
                    out.append(q if q[0] == 'a' else ('f', name, tuple(impl.reify(a, seen) for a in eargs)))
                    if len(out) >= max(k, 1):
                        status = 'limit'
                        break
            finally:
                g.close()
            return ('ok', status, out)
        except impl.ImplWork:
            return ('work', 'done', [])
        except impl.ImplBudget:
            return ('exc', 'impl-does-not-terminate', 'step budget')
        except tuple(BOOMS) as e:
            if e.args[:1] == ('boom',):
                e.partial = out
                raise
            return ('exc', impl.exc_signature(e), '%s: %s' % (type(e).__name__, str(e)[:300]))
        except RecursionError as e:
            return ('exc', 'RecursionError', str(e)[:200])
        except Exception as e:     # noqa
            return ('exc', impl.exc_signature(e), '%s: %s' % (type(e).__name__, str(e)[:300]))


PROP = C20()

"""C10 - text outside the grammar is rejected, never partially compiled."""
import ast
import os
import tempfile
from ..runner import Prop, OK, DISCARD, FAIL, HarnessError
from .. import gen
from .. import impl
from .. import recog

CFG = gen.with_cfg(control=frozenset(['cut', ';', 'ite', '->', 'not']), meta=True, library=True, max_clauses=5, min_clauses=1)
FOREIGN = ['"', '#', '$', 'é', '\x00', '&', '~', '`', '{', '}', '^', '*', '?', '@', '\\', ':', "'", '%', '/', '|', ' ', 'λ',
           # compatibility characters whose NFKC form IS in the lexicon (space, brackets, full stop, letters, digits)
           '\u00a0', '\u3000', '\u2003', '\uff08', '\uff09', '\uff0e', '\uff0c', '\ufb01', '\u00b2', '\uff41', '\uff21', '\u2460',
           '\u200b', '\ufeff', '\u2028']
ALPHABET = ['foo', 'X', '_', '(', ')', ',', '.', ':-', ';', '->', '\\+', '[', ']', '|', "'", 'a b', '=', '\\=', '-', '+', '/', '1',
            'true', 'fail', '!', ' ', '\n', '%', '"', 'é', '#', "'q'", '<', '=<', '\\', ':', '$', 'p(a).', ':- d.', "'x\\'y'", '% c\n']
JUNK = [')', 'garbage', "'unterminated", '"str".', '.', ',', 'foo(', 'é', ':-', 'x :-', '% no newline', ']', '|', 'a b.', '(', 'X', '1', ';', '->', 'p(a)']


def mutate_text(src, text):
    """1-2 edits; returns (new text, list of edit kinds)"""
    kinds = []
    for _ in range(1 + (src.n(4) == 3)):
        try:
            toks = recog.lex(text, keep_skipped=True)
        except recog.LexError:
            toks = [('RAW', ch, i) for i, ch in enumerate(text)]
        sig = [i for i, t in enumerate(toks) if t[0] not in ('WS', 'COMMENT')]
        if not sig:
            text = text + src.pick(JUNK)
            kinds.append('append-junk')
            continue
        k = src.n(12)
        i = sig[src.n(len(sig))]
        tt_ = [t[1] for t in toks]
        if k == 0:
            kinds.append('delete-token')
            del tt_[i]
        elif k == 1:
            kinds.append('duplicate-token')
            tt_.insert(i, tt_[i])
        elif k == 2:
            kinds.append('insert-token')
            tt_.insert(i, src.pick(ALPHABET))
        elif k == 3:
            kinds.append('swap-tokens')
            j = sig[src.n(len(sig))]
            tt_[i], tt_[j] = tt_[j], tt_[i]
        elif k == 4:
            kinds.append('truncate-at-token')
            tt_ = tt_[:i]
        elif k == 5:
            kinds.append('truncate-at-character')
            s = ''.join(tt_)
            text = s[:src.n(len(s) + 1)]
            continue
        elif k == 6:
            kinds.append('foreign-character')
            tt_.insert(i, src.pick(FOREIGN))
        elif k == 7:
            br = [j for j in sig if toks[j][0] in ('(', ')', '[', ']')]
            if br:
                kinds.append('unbalance-bracket')
                del tt_[src.pick(br)]
            else:
                kinds.append('insert-token')
                tt_.insert(i, ')')
        elif k == 8:
            dots = [j for j in sig if toks[j][0] == '.']
            kinds.append('drop-full-stop')
            if dots:
                del tt_[src.pick(dots)]
        elif k == 9:
            kinds.append('append-junk')
            tt_.append(' ' + src.pick(JUNK))
        elif k == 10:
            kinds.append('open-quote')
            tt_.insert(i, "'")
        else:
            kinds.append('replace-token')
            tt_[i] = src.pick(ALPHABET)
        text = ''.join(tt_)
    return text, kinds


MTIME_NS = 1700000000 * 10 ** 9
_DIR = []


def compile_via_replaced_file(text):
    """the text arrives as the new content of a file that was compiled before in this process, when it held a valid
    program of the same size and modification time (cp -p, rsync -t, an archive unpacked over a checkout): returns
    ('code', str) or ('raised', exception); None when the text cannot be stored as UTF-8"""
    try:
        data = text.encode('utf8')
    except UnicodeEncodeError:
        return None
    if not _DIR:
        _DIR.append(tempfile.mkdtemp(prefix='c10file'))
        import atexit, shutil
        atexit.register(shutil.rmtree, _DIR[0], True)
    path = os.path.join(_DIR[0], 'rules_%d.prolog' % os.getpid())
    prior = b'p.' + b' ' * (len(data) - 2) if len(data) >= 2 else b' ' * len(data)
    from yldprolog import compiler
    for content in (prior, data):
        with open(path, 'wb') as f:
            f.write(content)
        os.utime(path, ns=(MTIME_NS, MTIME_NS))
        try:
            with impl.quiet_stderr():
                code = compiler.compile_prolog_from_file(path, impl.Ctx)
            res = ('code', code)
        except Exception as e:      # noqa
            res = ('raised', e)
    return res


def compile_bytes(data, route):
    """raw bytes as a source file: ('code', str) / ('raised', exc) through compile_prolog_from_file, or ('exit', status,
    output) through the command line"""
    if not _DIR:
        _DIR.append(tempfile.mkdtemp(prefix='c10file'))
        import atexit, shutil
        atexit.register(shutil.rmtree, _DIR[0], True)
    path = os.path.join(_DIR[0], 'raw_%d.prolog' % os.getpid())
    with open(path, 'wb') as f:
        f.write(data)
    if route == 'file':
        from yldprolog import compiler
        try:
            with impl.quiet_stderr():
                return ('code', compiler.compile_prolog_from_file(path, impl.Ctx))
        except Exception as e:      # noqa
            return ('raised', e)
    from click.testing import CliRunner
    out = path + '.out.py'
    if os.path.exists(out):
        os.remove(out)
    if route == 'stdin':
        r = CliRunner().invoke(impl.compiler.main, ['-', '-o', out], input=data)
    else:
        r = CliRunner().invoke(impl.compiler.main, [path, '-o', out])
    written = ''
    if os.path.exists(out):
        with open(out, encoding='utf8', errors='replace') as f:
            written = f.read()
    return ('exit', r.exit_code, written)


def run_in_other_process(text, via):
    """the text as the only source of a real command-line process: (exit status, standard output)"""
    import subprocess
    import sys
    import tempfile
    env = dict(os.environ, PYTHONPATH=os.path.join(impl.REPO, 'src'), PYTHONDONTWRITEBYTECODE='1', PYTHONIOENCODING='utf-8')
    data = text.encode('utf8', 'surrogatepass')
    if via == 'stdin-pipe':
        p = subprocess.run([sys.executable, '-X', 'int_max_str_digits=0', '-m', 'yldprolog.compiler', '-'], input=data, stdout=subprocess.PIPE, stderr=subprocess.DEVNULL, env=env)
        return p.returncode, p.stdout.decode('utf8', 'replace')
    fd, path = tempfile.mkstemp(prefix='verif-c10-O-', suffix='.prolog')
    try:
        with os.fdopen(fd, 'wb') as f:
            f.write(data)
        p = subprocess.run([sys.executable, '-O', '-m', 'yldprolog.compiler', path], stdout=subprocess.PIPE, stderr=subprocess.DEVNULL, env=env)
        return p.returncode, p.stdout.decode('utf8', 'replace')
    finally:
        os.unlink(path)


def compile_via_command_line(text, position):
    """the text as one of three sources of one command-line run (the others are the valid programs `cl_first.` and
    `cl_last.`): returns (exit status, text of the output file); None when the text cannot be stored as UTF-8"""
    try:
        data = text.encode('utf8')
    except UnicodeEncodeError:
        return None
    from click.testing import CliRunner
    if not _DIR:
        _DIR.append(tempfile.mkdtemp(prefix='c10file'))
        import atexit, shutil
        atexit.register(shutil.rmtree, _DIR[0], True)
    base = os.path.join(_DIR[0], 'cl_%d_' % os.getpid())
    names = []
    contents = [b'cl_first.\n', b'cl_last.\n']
    contents.insert(position, data)
    for i, c in enumerate(contents):
        names.append(base + '%d.prolog' % i)
        with open(names[-1], 'wb') as f:
            f.write(c)
    out = base + 'out.py'
    if os.path.exists(out):
        os.remove(out)
    r = CliRunner().invoke(impl.compiler.main, names + ['-o', out])
    written = ''
    if os.path.exists(out):
        with open(out, encoding='utf8', errors='replace') as f:
            written = f.read()
    return r.exit_code, written


def defs_in(code):
    """names of the module-level function definitions of compiler output, or None if it does not parse"""
    try:
        mod = ast.parse(code)
    except (SyntaxError, ValueError, RecursionError, MemoryError):
        return None
    return [n.name for n in mod.body if isinstance(n, (ast.FunctionDef, ast.AsyncFunctionDef))]


def expected_defs(text):
    clauses, all_plain = recog.split_clauses(text)
    if not all_plain:
        return None
    return sorted({'%s_%d' % c['head'] for c in clauses if 'head' in c})


class C10(Prop):
    id = 'C10'
    title = 'Text outside the grammar is rejected, never partially compiled'
    technique = 'property-based testing (Hypothesis) of grammar-derived programs and their corruptions against an independent recogniser of prolog.g4; atheris coverage-guided fuzzing in the thorough tier'
    rule = ('a valid program printed with generated layout (comments, quoted atoms, redundant parentheses), then 0-2 '
            'edits: delete / duplicate / insert / swap / replace a token, truncate at a token or character boundary, '
            'insert a foreign character, unbalance a bracket, drop a full stop, append junk after the last clause, open a '
            'quote that never closes; plus raw strings over the token alphabet. Oracle: an independent recogniser of the '
            'grammar (maximal-munch lexer + set-of-end-positions parser, whole input must be consumed): recogniser '
            'rejects and compiler returns code => violation; compiler returns code for an accepted text whose heads are '
            'plain => the set of name/arity heads found by the recogniser\'s clause splitter must equal the set of def '
            'name_arity in the output. Oracle self-check on every text: recogniser accepts <=> ANTLR reports no '
            'lexer/parser error and reaches EOF (disagreement = harness error). One case in six also arrives as the new '
            'content of a file compiled before in the same process (then a valid program of the same size and '
            'modification time) through compile_prolog_from_file, one in six as one of three sources of a command-line '
            'run (first, middle or last; exit status 0 for a text outside the grammar = violation); one case in 24 is a valid program with one byte inserted that makes the file invalid UTF-8 (outside comments and quoted atoms), through compile_prolog_from_file, a command-line source or standard input. Once per run: 24 (thorough 240) texts - half of them behind a table of 400-2500 facts (14-90 KB) - go through real command-line processes: as standard input on a pipe, or as a file under python -O; exit status 0 for a text outside the grammar, or definitions missing from the output of a valid one = violation. Non-trivial = text outside the grammar '
            '(must-reject case); distinct = SHA-1 of the text.')
    assumptions = ['CPython 3.12 of /venv', 'independent recogniser, cross-checked on every generated text against ANTLR\'s own verdict',
                   'a valid program may be refused by the compiler (C10 is one-sided)']
    cases = {'quick': 4000, 'thorough': 80000}
    genome = {'quick': 400, 'thorough': 400}

    def selftest(self, tier):
        corpus = [("foo(a).", True), ("foo(a)", False), ("a(X) :- b(X),, c(X).", False), ("foo(a). ) garbage", False),
                  ("foo(a). 'unterminated", False), ('foo(a). "str".', False), ("p(é).", False), ("foo(a)..", False),
                  ("p :- (a, b) ; \\+ \\+ c.", True), ("x(1(2), 'q'(r), []).", True), ("p :- [a,|X] = Y.", True),
                  ("foo(a). % c", False), ("foo(a). % c\n", True), (":- d.", True), ("p('it\\'s').", True),
                  ("p(truex, _x, - 1, a/2, =(a,b), 1 < 2).", True), ("t :- a ; b -> c, !.", True), ("", True), ("p(a,).", False),
                  ("p :- .", False), ("p(true).", False), ("'a\\\\'b'.", True)]
        for s, exp in corpus:
            got = recog.in_language(s)
            if got != exp:
                raise HarnessError('recogniser self-test: %r expected %s got %s' % (s, exp, got))
            if recog.antlr_verdict(s) != exp:
                raise HarnessError('recogniser corpus disagrees with ANTLR on %r' % s)
        return {'recogniser_corpus': len(corpus)}

    def decode(self, src):
        mode = src.n(8)
        if mode == 7:
            text = ''.join(src.pick(ALPHABET) for _ in range(1 + src.n(10)))
            return {'text': text, 'edits': ['raw-token-string']}
        preds, clauses = gen.gen_program(src, CFG)
        text = gen.program_text(clauses, src)
        if mode == 0:
            return {'text': text, 'edits': []}
        if mode == 1 and src.n(3) == 0:
            # a byte that makes the FILE invalid UTF-8, placed outside comments and quoted atoms (at the start of a token
            # or inside a name): whatever it is meant to be, it is no character of the lexicon
            try:
                toks = [t for t in recog.lex(text, keep_skipped=True)]
            except recog.LexError:
                toks = []
            cand = [t for t in toks if t[0] not in ('WS', 'COMMENT') and not t[1].startswith("'")]
            if cand:
                t = src.pick(cand)
                off = t[2] + (src.n(len(t[1])) if src.n(2) else 0)
                return {'text': text, 'edits': ['invalid-utf8-byte'], 'via': 'bytes', 'byte_at': [off, src.pick([0xff, 0xe9, 0xc3, 0x80, 0xa0, 0xfe])],
                        'route': src.pick(['file', 'command-line', 'stdin'])}
        text, kinds = mutate_text(src, text)
        v = src.n(6)
        if v == 0:
            return {'text': text, 'edits': kinds, 'via': 'replaced-file'}
        if v == 1:
            return {'text': text, 'edits': kinds, 'via': 'command-line', 'position': src.n(3)}
        return {'text': text, 'edits': kinds}

    def case_key(self, case):
        return case['text'] + repr(case.get('byte_at') or '')

    def shrink_candidates(self, case):
        if case.get('via') == 'bytes':
            return          # the offset is tied to the text
        t = case['text']
        lines = t.split('\n')
        for i in range(len(lines)):
            yield dict(case, text='\n'.join(lines[:i] + lines[i + 1:]))
        n = len(t)
        for size in (n // 2, n // 4, 8, 3, 1):
            if size < 1:
                continue
            for i in range(0, n, size):
                yield dict(case, text=t[:i] + t[i + size:])

    def decide_bytes(self, case):
        text = case['text']
        off, b = case['byte_at']
        if not recog.in_language(text):
            return DISCARD('base text not in the language')
        data = text[:off].encode('utf8') + bytes([b]) + text[off:].encode('utf8')
        try:
            data.decode('utf8')
            return DISCARD('the byte happens to complete a valid sequence')
        except UnicodeDecodeError:
            pass
        r = compile_bytes(data, case.get('route', 'file'))
        accepted = (r[0] == 'code') or (r[0] == 'exit' and r[1] == 0)
        if accepted:
            code = r[1] if r[0] == 'code' else r[2]
            return FAIL('accepted-a-file-that-is-not-utf8', {'text': text, 'invalid_byte': '0x%02x at offset %d' % (b, off), 'route': case.get('route'),
                                                             'bytes_around': repr(data[max(0, off - 12):off + 12]), 'defs_in_output': defs_in(code) if isinstance(code, str) else None})
        return OK(True, ['invalid-utf8-byte', 'route:' + case.get('route', 'file'), 'rejected'])

    def decide(self, case):
        if case.get('via') == 'bytes':
            return self.decide_bytes(case)
        text = case['text']
        try:
            inlang = recog.in_language(text)
        except RecursionError:
            return DISCARD('recogniser recursion limit')
        try:
            antlr = recog.antlr_verdict(text)
        except RecursionError:
            return DISCARD('ANTLR recursion limit')
        except Exception as e:      # noqa
            raise HarnessError('ANTLR verdict failed on %r: %r' % (text, e))
        if antlr != inlang:
            raise HarnessError('recogniser (%s) and ANTLR (%s) disagree on %r' % (inlang, antlr, text))
        classes = list(case.get('edits') or ['unmodified'])
        if case.get('via') == 'replaced-file' and '\r' not in text:
            r = compile_via_replaced_file(text)
            if r is not None:
                classes.append('also-as-replaced-file')
                if r[0] == 'code' and not inlang:
                    return FAIL('accepted-outside-grammar-from-replaced-file',
                                {'text': text, 'edits': case.get('edits'), 'defs_in_output': defs_in(r[1]) if isinstance(r[1], str) else None,
                                 'scenario': 'the file held a valid program of the same size and modification time when it was compiled before'})
                if r[0] == 'code' and isinstance(r[1], str):
                    exp = expected_defs(text)
                    got = defs_in(r[1])
                    if exp is not None and got is not None and sorted(got) != exp:
                        return FAIL('definitions-differ-from-clauses-from-replaced-file',
                                    {'text': text, 'expected_defs': exp, 'defs_in_output': sorted(got)})
        if case.get('via') == 'command-line':
            r = compile_via_command_line(text, case.get('position', 0))
            if r is not None:
                classes.append('also-as-command-line-source')
                if r[0] == 0 and not inlang:
                    return FAIL('accepted-outside-grammar-on-command-line',
                                {'text': text, 'edits': case.get('edits'), 'position_among_3_sources': case.get('position', 0),
                                 'exit_status': 0, 'defs_in_output': defs_in(r[1])})
        if case.get('via') in ('optimised-interpreter', 'stdin-pipe'):
            r = run_in_other_process(text, case['via'])
            classes.append('also-' + case['via'])
            if r[0] == 0 and not inlang:
                return FAIL('accepted-outside-grammar:' + case['via'],
                            {'text_length': len(text), 'text_end': text[-300:], 'edits': case.get('edits'), 'exit_status': 0,
                             'scenario': 'python -O -m yldprolog.compiler <file>' if case['via'] == 'optimised-interpreter' else 'python -m yldprolog.compiler - with the text on a pipe',
                             'last_defs_in_output': (defs_in(r[1]) or [])[-3:]})
            if r[0] == 0 and inlang:
                exp = expected_defs(text)
                got = defs_in(r[1])
                if exp is not None and got is not None and sorted(set(got)) != exp:
                    return FAIL('definitions-differ-from-clauses:' + case['via'], {'text_length': len(text), 'text_end': text[-300:], 'missing': sorted(set(exp) - set(got))[:5]})
        try:
            code = impl.compile_text(text)
        except Exception as e:      # noqa
            classes.append('in-language-but-refused(%s)' % type(e).__name__ if inlang else 'rejected')
            return OK(not inlang, classes)
        if not isinstance(code, str):
            return FAIL('compiler-returned-non-text', {'text': text, 'returned': repr(code)[:100]})
        if not inlang:
            return FAIL('accepted-outside-grammar', {'text': text, 'edits': case.get('edits'), 'defs_in_output': defs_in(code)})
        exp = expected_defs(text)
        got = defs_in(code)
        if exp is not None and got is not None and sorted(got) != exp:
            return FAIL('definitions-differ-from-clauses', {'text': text, 'expected_defs': exp, 'defs_in_output': sorted(got)})
        classes.append('accepted-and-defs-checked' if exp is not None else 'accepted')
        return OK(False, classes)

    def fuzz_campaign(self, tier, seed):
        """thorough tier: coverage-guided campaign through the same decision function; every failure is re-decided here"""
        from .. import fuzzdrv
        from ..runner import OK
        if tier != 'thorough':
            return []
        info, fails = fuzzdrv.campaign(self.id, seed)
        self.fuzz_info = info
        out = []
        for f in fails:
            case = f['case']
            out.append((case, self.decide(case)))
        return out

    def extra_checks(self, tier, seed):
        return self.other_processes(tier, seed) + self.fuzz_campaign(tier, seed)

    def other_processes(self, tier, seed):
        """the command line as real processes: under python -O (assert statements are not executed), and with a source
        longer than any buffer arriving on a pipe as standard input"""
        import hashlib
        from concurrent.futures import ThreadPoolExecutor
        from ..gen import Src
        cases = []
        n = 24 if tier == 'quick' else 240
        for r in range(n):
            src = Src(hashlib.sha256(('%d/%d/c10proc' % (seed, r)).encode()).digest() * 16)
            text = gen.program_text(gen.gen_program(src, CFG)[1], src)
            if r % 4 == 0:
                # a long table (14-90 KB) in front: longer than a pipe buffer or an io buffer
                width = src.pick([400, 1000, 2500])
                if src.n(2):
                    text = ''.join('entry(k%05d, value_%05d, [a, b, c]).\n' % (i, i) for i in range(width)) + text
                else:
                    # fixed-width records of 64 bytes: every power-of-two offset is a clause boundary
                    line = 'record(k%05d, value_%05d, [a, b, c], fixed_width_record_pad).\n'
                    line = line.replace('_pad', '_pad' + 'x' * (64 - len(line % (0, 0))))
                    assert len(line % (0, 0)) == 64
                    text = ''.join(line % (i, i) for i in range(width)) + text
            tail = src.pick(['oops( .\n', ') x.\n', "'unterminated\n", 'last(a)\n', 'é.\n', '. .\n', ',\n', ''])
            kinds = ['appended:' + repr(tail)] if tail else []
            if r % 4 != 0 and src.n(2):
                text, kinds = mutate_text(src, text)
                tail = ''
            cases.append({'text': text + tail, 'edits': kinds + (['long-table'] if r % 4 == 0 else []),
                          'via': 'stdin-pipe' if r % 4 == 0 or r % 4 == 1 else 'optimised-interpreter'})
        with ThreadPoolExecutor(8) as ex:
            outs = list(ex.map(self.decide, cases))
        return list(zip(cases, outs))


PROP = C10()

"""C05 - cut commits the clause and nothing else."""
from ..terms import tt, body_map_terms
from .. import gen
from . import common as C
from . import bodies as B


def cuts_to_true(b):
    k = b[0]
    if k == 'cut':
        return ('true',)
    if k in (',', ';', '->'):
        return (k, cuts_to_true(b[1]), cuts_to_true(b[2]))
    if k == 'not':
        return ('not', cuts_to_true(b[1]))
    return b


class C05(C.ProgramDiff):
    id = 'C05'
    title = 'Cut commits the clause and nothing else'
    technique = ('property-based differential testing against a reference interpreter (Hypothesis) + '
                 'bounded-exhaustive enumeration of clause bodies with cuts')
    rule = ('(a) random programs whose bodies use !, ",", ";", "->", if-then-else and \\+ with cuts only in '
            'transparent positions, queried with 3 queries (half of them derived from clause heads); directed families in 3 cases of 8: a body-only variable first bound inside a branch that is not always taken and used afterwards on every path; a branch ending in a cut followed by a row of 2-4 two-way choices in the same body; sibling branches that differ only in a quoted atom printing like a variable / structure; also cut idioms, bodies of 10-18 goals with a late cut, programs loaded as two scripts; (b) bounded-exhaustive: clause '
            'bodies with <= 2 leaves and a quarter of the 3-leaf ones (thorough: all <= 3 leaves and all 4-leaf ones without negation) over {m0,m1,m2,true,fail,!,is1,r2} x {",",";","->"} (+ one \\+ at any '
            'node) that contain a cut, as middle clause of a 3-clause predicate called as w(W), t(..), w(W2). Answers '
            'compared with reference R (and R with the second engine). (c) soak: one engine, 6^5 cuts inside one enumeration and 12 000 (thorough 60 000) repeated queries with cuts - the answers must not change. Non-trivial = a cut is reached in R\'s run and '
            'prunes, i.e. R with every ! replaced by true gives a different answer sequence; distinct = SHA-1 of '
            'program text + queries.')
    assumptions = ['CPython 3.12 of /venv', 'reference interpreter R cross-checked with explicit-stack engine M',
                   'cuts in conditions, under \\+ and inside meta-call arguments are not generated (outside the property)']
    cases = {'quick': 2400, 'thorough': 40000}
    split_scripts = True
    cfg = gen.with_cfg(control=frozenset(['cut', ';', 'ite', '->', 'not']))
    answer_limit = 200

    def decode(self, src):
        case = C.ProgramDiff.decode(self, src)
        k = src.n(8)
        if k in (3, 4, 5):
            case = self.decode_shapes(src, case, k)
            return case
        if k >= 6:
            clauses = list(case['clauses'])
            queries = list(case['queries'])
            V = lambda n: ('v', 'I%s' % n)      # noqa: E731
            f = lambda name, *a: ('f', name, tuple(a))      # noqa: E731
            call = lambda t: ('call', t)      # noqa: E731
            lp = lambda h, t: ('f', '.', (h, t))      # noqa: E731
            A = src.pick(gen.Cfg.atoms)
            if k == 6:
                # classic cut idioms: all-variable heads with a repeated variable and a leading cut, memberchk, ...
                idioms = [
                    [(f('neq', V(1), V(1)), (',', ('cut',), ('fail',))), (f('neq', gen.anon_var(src), gen.anon_var(src)), ('true',))],
                    [(f('same3', V(1), V(2), V(1)), (',', ('cut',), call(f('=', V(2), ('a', 'eq'))))), (f('same3', gen.anon_var(src), V(2), gen.anon_var(src)), call(f('=', V(2), ('a', 'ne'))))],
                    [(f('mchk', V(1), lp(V(1), gen.anon_var(src))), ('cut',)), (f('mchk', V(1), lp(gen.anon_var(src), V(2))), call(f('mchk', V(1), V(2))))],
                    [(f('fst', V(1)), (',', call(f('q', V(1))), ('cut',))), (f('fst', ('a', 'none')), ('true',))],
                ]
                idi = src.pick(idioms)
                clauses += idi
                name = idi[0][0][1]
                n = len(idi[0][0][2])
                for _ in range(2):
                    if name == 'mchk':
                        queries.append(f('mchk', src.pick([('a', A), gen.QVARS[0]]), gen.gen_list(src, gen.QVARS, gen.Cfg)))
                    else:
                        queries.append(('f', name, tuple(src.pick([('a', A), ('a', 'b'), gen.QVARS[0], gen.QVARS[1]]) for _ in range(n))))
            else:
                # a long clause body with a cut late in it (13-18 top-level goals)
                n = 10 + src.n(9)
                at = src.n(n)
                goals = []
                for i in range(n):
                    goals.append(('cut',) if i == at else call(f(src.pick(['two', 'one', 'two']), V(i % 4))) if src.n(3) else ('true',))
                body = goals[-1]
                for g in reversed(goals[:-1]):
                    body = (',', g, body)
                clauses += [(f('two', ('i', 1)), ('true',)), (f('two', ('i', 2)), ('true',)), (f('one', ('i', 1)), ('true',)),
                            (f('lng', V(0), V(1), V(2), V(3)), body), (f('lng', ('a', 'z'), ('a', 'z'), ('a', 'z'), ('a', 'z')), ('true',))]
                queries.append(f('lng', *gen.QVARS[:3], ('v', 'Q3')))
            case['clauses'] = clauses
            case['queries'] = queries
            case['text'] = gen.program_text(clauses, src)
        return case

    def decode_shapes(self, src, case, k):
        from ..terms import term_vars, body_vars, body_map_terms
        clauses = list(case['clauses'])
        queries = list(case['queries'])
        V = lambda n: ('v', 'S%s' % n)      # noqa: E731
        f = lambda name, *a: ('f', name, tuple(a))      # noqa: E731
        call = lambda t: ('call', t)      # noqa: E731
        eq = lambda a, b: call(f('=', a, b))      # noqa: E731
        A = lambda n: ('a', n)      # noqa: E731
        unary = sorted({h[1] for h, _ in clauses if h[0] == 'f' and len(h[2]) == 1})
        gen1 = (lambda v: call(f(src.pick(unary), v))) if unary and src.n(2) else (lambda v: (';', eq(v, A('a')), eq(v, A('b'))))
        if k == 3:
            # a body-only variable whose FIRST use is a unification inside a branch that is not always taken, and a later use
            # on every path: an alternative that does not bind it must see it unbound
            X, Z, R = V(5), V(6), V(1)
            first = src.pick([
                (';', eq(X, A('a')), ('true',)),
                (';', ('true',), eq(X, A('a'))),
                (';', ('->', eq(V(0), A('go')), eq(X, A('one'))), ('true',)),
                (',', gen1(Z), (';', ('->', eq(Z, A('a')), eq(X, A('one'))), ('true',))),
                (';', (',', eq(X, A('a')), ('fail',)), eq(Z, A('b'))),
                (';', ('not', eq(X, A('a'))), eq(X, A('b'))),
                (';', (',', eq(X, f('f', Z)), eq(Z, A('a'))), eq(Z, A('c')))])
            last = src.pick([eq(R, f('r', X, Z)), eq(R, f('f', X)), (',', eq(R, X), ('true',)), (',', eq(R, f('r', Z, X)), ('cut',))])
            head = f('fu', V(0), R)
            clauses += [(head, (',', first, last)), (f('fu', A('z'), A('last')), ('true',))]
            queries = [f('fu', A('go'), gen.QVARS[1]), f('fu', gen.QVARS[0], gen.QVARS[1]), f('fu', A('stay'), gen.QVARS[1])]
            case['text'] = gen.program_text(clauses, src)
            case['clauses'] = clauses
            case['queries'] = queries
            return case
        if k == 4:
            # a branch that ends in a cut, then a row of 2-4 two-way choices in the same body (the continuation of the
            # first construct is needed once per branch), and a later clause
            n = 2 + src.n(3)
            first = src.pick([
                (';', (',', eq(V(0), A('stop')), ('cut',)), gen1(V(1))),
                (';', ('->', eq(V(0), A('stop')), (',', eq(V(1), A('none')), ('cut',))), gen1(V(1))),
                (';', gen1(V(1)), (',', eq(V(0), A('stop')), ('cut',))),
                (',', gen1(V(1)), (';', (',', eq(V(1), A('b')), ('cut',)), ('true',)))])
            row = [src.pick([(';', eq(V(2 + i), A('x')), eq(V(2 + i), A('y'))),
                             (';', ('->', eq(V(0), A('go')), eq(V(2 + i), A('x'))), eq(V(2 + i), A('y'))),
                             (';', eq(V(2 + i), A('x')), (';', eq(V(2 + i), A('y')), eq(V(2 + i), A('z'))))]) for i in range(n)]
            body = row[-1]
            for g in reversed(row[:-1]):
                body = (',', g, body)
            body = (',', first, body)
            head = f('rw', *[V(i) for i in range(2 + n)])
            clauses += [(head, body), (f('rw', *[A('last') for _ in range(2 + n)]), ('true',))]
            for k0 in ('go', 'stop', None):
                queries.append(f('rw', A(k0) if k0 else gen.QVARS[0], *[('v', 'Q%d' % (i + 1)) for i in range(1 + n)]))
            queries = queries[-3:] + queries[:1]
            case['text'] = gen.program_text(clauses, src)
        else:
            # two sibling branches that differ only in a quoted atom versus a variable / a structure that prints alike
            # (the text is printed with the default variable names V0, V1, ... so that the atom can be named after one)
            hv = [V(0), V(1)]
            g = src.pick([call(f('la1', V(0), V(1))), eq(V(1), f('f', V(0))), call(f('la1', f('f', V(0)), V(1)))])
            which = src.n(3)

            def variant(placeholder):
                def m(t):
                    if which == 0 and t == V(0):
                        return placeholder
                    if which == 1 and t == V(1):
                        return placeholder
                    if which == 2 and t[0] == 'f' and t[1] == 'f':
                        return placeholder
                    if t[0] == 'f':
                        return ('f', t[1], tuple(m(a) for a in t[2]))
                    return t
                return body_map_terms(g, m)
            shape = src.n(4)

            def build(g2):
                if shape == 0:
                    return (';', g, g2)
                if shape == 1:
                    return (';', g2, g)
                if shape == 2:
                    return (';', ('->', eq(V(0), A('k')), g), g2)
                return (',', (';', ('->', eq(V(0), A('k')), g2), g), eq(V(1), V(1)))
            head = f('la', V(0), V(1))
            probe = build(variant(A('\x00')))
            vs = term_vars(head, [])
            body_vars(probe, vs)
            if which == 2:
                name = 'f(%s)' % ('V%d' % vs.index(V(0)))
            else:
                name = 'V%d' % vs.index(V(which))
            body = build(variant(A(name)))
            clauses += [(head, body), (f('la1', A('V0'), A('one')), ('true',)), (f('la1', A('V1'), A('two')), ('true',)),
                        (f('la1', A('k'), A('three')), ('true',)), (f('la1', f('f', A('k')), A('four')), ('true',)),
                        (f('la1', A('f(V0)'), A('five')), ('true',)), (f('la1', V(0), A('any')), ('true',))]
            queries = [f('la', gen.QVARS[0], gen.QVARS[1]), f('la', A('k'), gen.QVARS[1]), f('la', A('V0'), gen.QVARS[1])]
            case['text'] = gen.program_text(clauses)
            case.pop('split', None)
        case['clauses'] = clauses
        case['queries'] = queries
        return case

    def nontrivial(self, clauses, q, st, ref, it, feats, classes):
        if st != 'done' or 'cut-reached' not in it.events:
            return False
        classes.add('cut-reached')
        nocut = [(h, cuts_to_true(b)) for h, b in clauses]
        st2, ref2, it2 = C.run_ref(nocut, q, limit=self.answer_limit)
        if st2 != 'done' or ref2 != ref:
            classes.add('cut-prunes')
            return True
        return False

    def keep_body(self, b):
        return B.has(b, ('cut',))

    SOAK_TEXT = ('d(1). d(2). d(3). d(4). d(5). d(6).\nfirst(X) :- d(X), !.\nfirst(none).\n'
                 'pick(X) :- ( d(X), X = 3 -> true ; X = no ).\none(X) :- once(d(X)).\n'
                 'run(A, B, C, D, E) :- d(A), d(B), d(C), d(D), d(E), first(_).\n')

    def extra_checks(self, tier, seed):
        """soak: one engine, many executed cuts (inside one long enumeration and over many queries): the answers at the
        end must be the answers at the beginning - bookkeeping that a cut leaves behind accumulates only here"""
        if self.id != 'C05':
            return []
        case = {'text': self.SOAK_TEXT, 'clauses': [], 'queries': [], 'soak': 12000 if tier == 'quick' else 60000}
        return [(case, self.decide(case))]

    def decide(self, case):
        if case.get('soak'):
            return self.decide_soak(case)
        return C.ProgramDiff.decide(self, case)

    def decide_soak(self, case):
        from ..runner import FAIL
        from .. import impl
        try:
            return self._decide_soak(case)
        except RecursionError:
            raise
        except Exception as e:      # noqa  - an engine that starts raising after many cuts / abandoned goals has changed its answers
            return FAIL('soak:exception:' + impl.exc_signature(e), {'text': case['text'], 'error': '%s: %s' % (type(e).__name__, str(e)[:200])})

    def _decide_soak(self, case):
        from ..runner import OK, FAIL
        from .. import impl
        text, n = case['text'], case['soak']
        yp = impl.YP()
        yp.load_script_from_string(impl.compile_text(text))

        def ans(name, k):
            vs = [yp.variable() for _ in range(k)]
            return [tuple(impl.to_python(v) for v in vs) for _ in yp.query(name, vs)]
        first0, pick0, one0 = ans('first', 1), ans('pick', 1), ans('one', 1)
        if first0 != [(1,)] or pick0 != [(3,)] or one0 != [(1,)]:
            return FAIL('soak:wrong-answers-at-the-start', {'text': text, 'first': first0, 'pick': pick0, 'one': one0})
        long_run = len(ans('run', 5))
        if long_run != 6 ** 5:
            return FAIL('soak:long-enumeration-with-cuts-loses-answers', {'text': text, 'expected': 6 ** 5, 'observed': long_run})
        for i in range(n):
            a = ans('first', 1)
            if a != first0:
                return FAIL('soak:answers-change-after-many-cuts', {'text': text, 'query': 'first(X)', 'repetition': i, 'expected': first0, 'observed': a})
        if ans('pick', 1) != pick0 or ans('one', 1) != one0 or len(ans('run', 5)) != 6 ** 5:
            return FAIL('soak:answers-change-after-many-cuts', {'text': text, 'after': n})
        return OK(True, ['soak:%d-queries-with-cuts-and-one-enumeration-executing-%d-cuts-on-one-engine' % (n, 6 ** 5)])

    def enumerate(self, tier):
        import os
        seed = int(os.environ.get('VERIF_SEED', '1') or '1')
        cases = []

        def add(nl, b):
            clauses, q = B.program_for(b, nl)
            cases.append({'text': C.plain_text(clauses), 'clauses': clauses, 'queries': [q], 'enumerated': True})
        if tier == 'quick':
            for k in (1, 2):
                for nl, b in B.bodies(k, True):
                    if self.keep_body(b):
                        add(nl, b)
            i = 0
            for nl, b in B.bodies(3, True):
                if self.keep_body(b):
                    if i % 4 == seed % 4:
                        add(nl, b)
                    i += 1
            scope = ('ALL bodies with <= 2 leaves, plus every 4th (offset VERIF_SEED mod 4) of the bodies with 3 leaves '
                     '(the thorough tier enumerates all of them)')
        else:
            for k in (1, 2, 3):
                for nl, b in B.bodies(k, True):
                    if self.keep_body(b):
                        add(nl, b)
            for nl, b in B.bodies(4, False):
                if self.keep_body(b):
                    add(nl, b)
            scope = 'ALL bodies with <= 3 leaves, plus ALL bodies with 4 leaves without negation'
        return (scope + '; leaves {m0,m1,m2,true,fail,!,is1(Vprev),m2(Vprev)} x connectives {",",";","->"}, one node optionally '
                'wrapped in \\+ or \\+ \\+, cuts in transparent positions only, restricted to %s; wrapper program: middle clause '
                'of t/n called as w(W), t(V1..Vn), w(W2)' % self.enum_focus, cases)

    enum_focus = 'bodies that contain a cut'


PROP = C05()

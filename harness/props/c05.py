"""C05 - cut commits the clause and nothing else."""
from ..terms import tt, body_map_terms
from .. import gen
from . import common as C
from . import bodies as B


def cuts_to_true(b):
    k = b[0]
    if k == 'cut':
        return ('true',)
    if k in (',', ';', '->'):
        return (k, cuts_to_true(b[1]), cuts_to_true(b[2]))
    if k == 'not':
        return ('not', cuts_to_true(b[1]))
    return b


class C05(C.ProgramDiff):
    id = 'C05'
    title = 'Cut commits the clause and nothing else'
    technique = ('property-based differential testing against a reference interpreter (Hypothesis) + '
                 'bounded-exhaustive enumeration of clause bodies with cuts')
    rule = ('(a) random programs whose bodies use !, ",", ";", "->", if-then-else and \\+ with cuts only in '
            'transparent positions, queried with 3 queries (half of them derived from clause heads); (b) ALL clause '
            'bodies with <= 3 leaves (thorough: <= 4) over {m0,m1,m2,true,fail,!} x {",",";","->"} (+ one \\+ at any '
            'node) that contain a cut, as middle clause of a 3-clause predicate called as w(W), t(..), w(W2). Answers '
            'compared with reference R (and R with the second engine). Non-trivial = a cut is reached in R\'s run and '
            'prunes, i.e. R with every ! replaced by true gives a different answer sequence; distinct = SHA-1 of '
            'program text + queries.')
    assumptions = ['CPython 3.12 of /venv', 'reference interpreter R cross-checked with explicit-stack engine M',
                   'cuts in conditions, under \\+ and inside meta-call arguments are not generated (outside the property)']
    cases = {'quick': 2400, 'thorough': 40000}
    cfg = gen.with_cfg(control=frozenset(['cut', ';', 'ite', '->', 'not']))
    answer_limit = 200
    enum_leaves = {'quick': 3, 'thorough': 4}

    def nontrivial(self, clauses, q, st, ref, it, feats, classes):
        if st != 'done' or 'cut-reached' not in it.events:
            return False
        classes.add('cut-reached')
        nocut = [(h, cuts_to_true(b)) for h, b in clauses]
        st2, ref2, it2 = C.run_ref(nocut, q, limit=self.answer_limit)
        if st2 != 'done' or ref2 != ref:
            classes.add('cut-prunes')
            return True
        return False

    def keep_body(self, b):
        return B.has(b, ('cut',))

    def enumerate(self, tier):
        n = self.enum_leaves[tier]
        cases = []
        for k in range(1, n + 1):
            for nl, b in B.bodies(k, True):
                if not self.keep_body(b):
                    continue
                clauses, q = B.program_for(b, nl)
                cases.append({'text': C.plain_text(clauses), 'clauses': clauses, 'queries': [q], 'enumerated': True})
        return ('all clause bodies with <= %d leaves over {m0,m1,m2,true,fail,!} x {",",";","->"} with at most one '
                '\\+ wrapped around any node, cuts in transparent positions only, restricted to %s; wrapper program: '
                'middle clause of t/n called as w(W), t(V1..Vn), w(W2)' % (n, self.enum_focus), cases)

    enum_focus = 'bodies that contain a cut'


PROP = C05()

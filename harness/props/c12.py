"""C12 - Prolog text cannot become Python code; loaded code sees only the engine API."""
import ast
import re
from ..runner import Prop, OK, DISCARD, FAIL, HarnessError
from ..terms import Budget
from .. import gen
from .. import impl
from .. import recog
from .c10 import C10
from .c11 import VARNAMES

API_CALLABLES = {'variable', 'atom', 'functor', 'functor1', 'functor2', 'functor3', 'listpair', 'makelist', 'unify',
                 'match_dynamic', 'query'}
API_NAMES = API_CALLABLES | {'ATOM_NIL'}
RESERVED_TARGETS = API_NAMES | {'True', 'False', 'None', '__builtins__', '__debug__'}
FORBIDDEN = (ast.Attribute, ast.Import, ast.ImportFrom, ast.Global, ast.Nonlocal, ast.ClassDef, ast.Lambda,
             ast.AsyncFunctionDef, ast.AsyncFor, ast.AsyncWith, ast.Await, ast.Starred, ast.With, ast.Try, ast.Raise,
             ast.Delete, ast.Assert, ast.JoinedStr, ast.NamedExpr, ast.Subscript, ast.ListComp, ast.SetComp,
             ast.DictComp, ast.GeneratorExp)

HOSTILE = ["'); canary(); ('", '"\ncanary()\n"', "__import__('os')", '{canary()}', 'N{BULLET}', "x'+canary()+'", 'a"b',
           "'''", '"""', 'line1\nline2', 'tab\tx', '\r', 'é', '☃', '\U0001f600', 'a\x00b', ' ', '', '$CUTIF', '%d %s', '#', 'a#b\ncanary()',
           "\\", "a\\'); canary() #", 'canary', 'canary()', '__builtins__', 'ATOM_NIL', 'query', 'atom', 'eval', 'exec("canary()")',
           ' canary()', '\x85canary()', '\x0ccanary()', "')]):\n  canary()\n  for _ in query('x',[atom('",
           # templating / formatting metacharacters (a code generator that builds text with % or str.format)
           '%(label)s', 'a%(label).1r+canary()+%(label).1rb', '%s', '%(name)s', '{0}', '{label}', '${label}', '%%', '%c',
           'a%(label).1r+atom.__self__.x+%(label).1rb', '{0.__class__}', '%(x)r', '%(label)s%(label)s', 'x%(label).1ry']
# non-ASCII text followed by a quote and text that would complete the surrounding generated line (an escaping routine
# that treats non-ASCII constants separately from ASCII ones)
HOSTILE += ["caf\u00e9' if canary() else 0)): #", "\u00e9'+canary()+'", "\u2603'); canary(); ('", "\u00e9' if canary() else 0), [])): #",
            "\u00e9', [canary()])): #", "\U0001f600' or canary())): #", "\u00e9\\' if canary() else 0)): #", '\u00e9" if canary() else 0)): #']
COOKIES = ['coding:utf-7', 'coding=utf-7', 'coding: utf_7', '-*- coding: utf-7 -*-', 'vim: set fileencoding=utf-7 :', 'coding:utf-16', 'coding:cp037']
UTF7_PAYLOADS = ['a+ACc-)+canary()+(+ACc-b', 'a+ACc- if canary() else +ACc-b', 'a+ACcAKQApADoACg-  canary()+AAo-  for _ in query(+ACc-x+ACc-,[atom(+ACc-b',
                 '+AAo-canary()+AAo-', 'a+ACc-, canary(), +ACc-b', 'plain']
INTERNAL_MARKERS = ['$CUTIF']      # names the code generator uses internally (read off yp_generator.py)


_HARVEST = []


def harvested_names():
    """identifiers that the code generator itself uses (read off its output for a small sample program) and that
    the lexer would accept as Prolog variable names: the names a clause variable could capture"""
    if not _HARVEST:
        names = set()
        try:
            code = impl.compile_text("p(X, Y) :- q(X, _), ( r(Y) -> s ; \\+ t(X, [Y|Z], f(Z)) ), findall(A, u(A), L), call(L, X), !.\np(a, b).\n")
            for n in ast.walk(ast.parse(code)):
                if isinstance(n, ast.Name):
                    names.add(n.id)
                elif isinstance(n, ast.arg):
                    names.add(n.arg)
        except Exception:      # noqa
            pass
        user = {'X', 'Y', 'Z', 'A', 'L'}
        _HARVEST.extend(sorted(x for x in names if re.fullmatch(r'[A-Z_][A-Za-z0-9_]*', x) and x not in user) or ['X'])
    return _HARVEST


def q(name):
    """source text of a quoted atom denoting `name` as far as the lexer allows (a quote is written backslash-quote)"""
    return "'" + name.replace("'", "\\'") + "'"


def analyse(code):
    """returns a list of problems (empty = the output has the shape the property demands)"""
    try:
        mod = ast.parse(code)
    except (SyntaxError, ValueError, RecursionError, MemoryError) as e:
        return ['output does not parse: %s' % e]
    problems = []
    for node in mod.body:
        if not isinstance(node, ast.FunctionDef):
            problems.append('module-level statement other than a function definition: %s' % type(node).__name__)
            continue
        m = re.match(r'^(.*)_(\d+)$', node.name, re.S)
        a = node.args
        if not m or not node.name.isidentifier():
            problems.append('function name %r is not <identifier>_<n>' % node.name)
        if node.decorator_list or a.defaults or a.kw_defaults or a.vararg or a.kwarg or a.kwonlyargs or a.posonlyargs:
            problems.append('function %r has decorators / defaults / star-args' % node.name)
        elif m and int(m.group(2)) != len(a.args):
            problems.append('function %r has %d parameters' % (node.name, len(a.args)))
        params = {x.arg for x in a.args}
        assigned = set()
        stores = {}
        for sub in ast.walk(node):
            if isinstance(sub, ast.Name) and isinstance(sub.ctx, (ast.Store, ast.Del)):
                assigned.add(sub.id)
                stores[sub.id] = stores.get(sub.id, 0) + 1
        # local aliases of engine functions (`_unify, _query = unify, query` as first statements of the function): calls
        # through them are calls of the engine function - provided nothing else in the function can rebind the alias
        aliases = {}
        for st in node.body:
            if isinstance(st, ast.Expr) and isinstance(st.value, ast.Constant):
                continue
            if not isinstance(st, ast.Assign):
                break               # aliases are set up by the simple assignments that open the function
            if len(st.targets) != 1:
                continue
            tg, val = st.targets[0], st.value
            tgs = tg.elts if isinstance(tg, ast.Tuple) else [tg]
            vals = val.elts if isinstance(val, ast.Tuple) else [val]
            if len(tgs) != len(vals) or not all(isinstance(x, ast.Name) for x in tgs) or \
                    not all(isinstance(v, ast.Name) and v.id in API_NAMES for v in vals):
                continue
            for x, v in zip(tgs, vals):
                aliases[x.id] = v.id
        for al in aliases:
            if stores.get(al, 0) > 1 or al in params:
                problems.append('%r, a local alias of the engine function %s, is bound again in %s (a clause variable captures it)' % (al, aliases[al], node.name))
        for tgt in params | assigned:
            if tgt in RESERVED_TARGETS:
                problems.append('%r is bound as a local name in %s (captures an engine / Python name)' % (tgt, node.name))
        for sub in ast.walk(node):
            if sub is node:
                continue
            if isinstance(sub, FORBIDDEN) or isinstance(sub, ast.FunctionDef):
                problems.append('forbidden construct %s in %s' % (type(sub).__name__, node.name))
            elif isinstance(sub, ast.Name) and isinstance(sub.ctx, ast.Load):
                if sub.id not in params and sub.id not in assigned and sub.id not in API_NAMES:
                    problems.append('free name %r in %s' % (sub.id, node.name))
            elif isinstance(sub, ast.Call):
                if not (isinstance(sub.func, ast.Name) and (sub.func.id in API_CALLABLES or aliases.get(sub.func.id) in API_CALLABLES)):
                    problems.append('call of something that is not an engine API function in %s: %s' % (node.name, ast.dump(sub.func)[:60]))
                if any(k.arg is None for k in sub.keywords):
                    problems.append('**kwargs call in %s' % node.name)
            elif isinstance(sub, ast.Constant):
                if not isinstance(sub.value, (str, int, bool, type(None))) or isinstance(sub.value, (bytes, float, complex)):
                    problems.append('constant of type %s in %s' % (type(sub.value).__name__, node.name))
            elif isinstance(sub, ast.Expr):
                if not isinstance(sub.value, (ast.Yield, ast.YieldFrom, ast.Constant)):
                    problems.append('expression statement that is not a yield in %s: %s' % (node.name, type(sub.value).__name__))
    return problems


class C12(Prop):
    id = 'C12'
    title = 'Prolog text cannot become Python code; loaded code sees only the engine API'
    technique = 'property-based testing (Hypothesis) with hostile atoms in every syntactic position; oracle = free-name / forbidden-construct analysis of the generated Python AST + canary + exhaustive run-time query table'
    rule = ('accepted programs in which every quoted-atom position (clause-head name, argument, functor name, goal name, '
            'list element, operand of =, findall/call arguments) is filled from a hostile family (Python fragments with '
            'both quote kinds, newlines and other line separators, NUL, non-ASCII, backslashes, braces, names of engine '
            'functions, the code generator\'s internal marker names) and variables are named after Python constants and '
            'engine names. Oracles: (1) AST analysis of the compiler output: module = function definitions only, named '
            '<identifier>_<n> with n plain parameters; every loaded name is a parameter, a local assignment or an engine '
            'API name; every call has a bare API function as callee; no parameter / loop / assignment target is an API '
            'name, True, False, None or __builtins__; constants are str/int/bool/None; no attribute access, import, '
            'global, class, lambda, nested def, f-string, subscript, comprehension, star-args, with/try/raise/del; '
            '(2) the script is loaded into a new engine or (one case in three) into one that was used and cleared before; the loaded functions see no Python builtins (their globals carry an empty __builtins__); a canary callable placed in the engine context is never called while loading the script and '
            'enumerating every defined predicate; (3) after loading, the context has no new key other than name_arity of '
            'the clause heads; (4) once per run, exhaustively: for every name in the engine context, every attribute of '
            'the engine object, Python builtins and look-alikes x arities 0-3, a run-time query yields no answer, raises '
            'nothing, calls no spy and leaves facts and context unchanged. Non-trivial = accepted program with a hostile '
            'atom containing one of \' " newline ( ) : in a position other than a plain argument, or a hostile variable '
            'name; distinct = SHA-1 of the text.')
    assumptions = ['CPython 3.12 of /venv', 'the list of engine API names is read off YP._set_default_eval_context', 'refused programs assert nothing']
    cases = {'quick': 3000, 'thorough': 50000}
    genome = {'quick': 300, 'thorough': 300}

    def selftest(self, tier):
        # the analysis must flag the known bad shapes and accept ordinary compiler output
        bad = ["def p_0():\n  marker()\n  yield False\n", "import os\n", "def p_1(arg1):\n  ATOM_NIL = arg1\n  yield False\n",
               "def p_0():\n  for l1 in query('x',[]):\n    yield os.x\n", "x = 1\n", "def a(x):\n  pass\nimport_os = 1\ndef b_1(arg1):\n  yield False\n"]
        for code in bad:
            if not analyse(code):
                raise HarnessError('AST analysis accepts %r' % code)
        good = impl.compile_text("p(X,[Y|T]) :- q(X), (r(Y) -> true ; \\+ s(T)), !, findall(Z, t(Z), L), X \\= 'a b'.\np(_, 7).\n")
        if analyse(good):
            raise HarnessError('AST analysis rejects ordinary compiler output: %r' % analyse(good))
        return {'ast_analysis_bad_shapes_flagged': len(bad)}

    def hostile(self, src):
        h = src.pick(HOSTILE)
        k = src.n(6)
        if k == 3:
            return src.pick(['p', 'x_1', 'A', '_', 'p_0']) + h                      # starts like an identifier
        if k == 4:
            return src.pick(['p', 'q_1', 'x']) + src.pick(['(): pass\n', '():\n  canary()\n', '(x):\n  yield\n']) + src.pick(['canary()\n', '']) + 'def ' + src.pick(['q', 'p_0', 'z_1'])
        if k == 5:
            return h + src.pick(['x', '_1', ' ', '#'])
        if k == 2 and src.n(2):
            # long atoms: an escaped character near a multiple of 100 characters followed by text that would be valid
            # Python if a (re-wrapped / truncated) string literal ended early
            n = 90 + src.n(25) + 100 * src.n(2)
            return 'A' * n + src.pick(['\n', '\r', '\t', "'", '\x00']) + src.pick(['ot in "" and canary())):#', '"" or canary())):#', ' or canary()', ")+canary()+('", '\ncanary()\n'])
        return h

    def decode(self, src):
        clauses = []
        positions = []
        for _ in range(1 + src.n(4)):
            k = src.n(10)
            h = self.hostile(src)
            v = src.pick(VARNAMES) if src.n(3) else src.pick(harvested_names())
            if k == 0:
                clauses.append('%s(a) :- true.' % q(h))
                positions.append('head-name')
            elif k == 1:
                clauses.append('p(%s).' % q(h))
                positions.append('argument')
            elif k == 2:
                clauses.append('p(%s(a, %s)) :- r(%s(b)).' % (q(h), q(self.hostile(src)), q(h)))
                positions.append('functor-name')
            elif k == 3 and src.n(3) == 0:
                # a goal that calls the clause's own predicate (same name, same arity), also next to a variable spelled
                # like the generated function
                nm = src.pick(['nat', 'Nat', 'walk', 'P', h])
                clauses.append(src.pick(["%s(s(X)) :- %s(X).", "%s(s(X)) :- {0}_1 = X, %s({0}_1).", "%s(X) :- r(X, Y), \\+ %s(Y)."]).replace('{0}', nm if nm.isidentifier() and nm[0].isupper() else 'Nat') % (q(nm), q(nm)))
                positions.append('recursive-goal')
            elif k == 3:
                clauses.append('g%d :- %s(a), r.' % (src.n(3), q(h)))
                positions.append('goal-name')
            elif k == 4:
                clauses.append('l([%s, X|T]) :- X = %s, T \\= [%s].' % (q(h), q(self.hostile(src)), q(h)))
                positions.append('list-and-=')
            elif k == 5:
                clauses.append('m(L) :- findall(%s, call(%s, X), L), once(%s).' % (q(h), q(self.hostile(src)), q(h)))
                positions.append('meta-call-arguments')
            elif k == 6:
                clauses.append(src.pick(['v(%s, %s) :- %s = foo, q(%s).', 'v(%s) :- r(%s), (%s = 1 -> true ; s(%s)).',
                                         'v([%s|%s], %s, %s).']).replace('%s', '{0}', 1).replace('%s', '{1}', 1).replace('%s', '{0}', 1).replace('%s', '{1}').format(v, src.pick(VARNAMES)))
                positions.append('variable-name')
            elif k == 7:
                mk = src.pick(INTERNAL_MARKERS)
                clauses.append(src.pick(['i :- %s(%s), r.', 'i :- r, %s(%s).', 'i :- (%s(%s) -> r ; s).', 'i :- %s(%s).']) % (q(mk), q(h)))
                positions.append('internal-marker-as-goal')
            elif k == 8 and src.n(2):
                clauses.append('%s :- %s.' % (q(h), q(self.hostile(src))))
                positions.append('head-name')
            elif k == 8:
                h2 = self.hostile(src)
                clauses.append(src.pick(['t :- ( q(%s) -> r(%s) ; \\+ s(%s) ).', 't(X) :- \\+ X = %s, ( X = %s -> true ), r(%s).',
                                         't :- r, ( %s(a) -> true ; %s ), \\+ \\+ q(%s).']) % (q(h), q(h2), q(h)))
                positions.append('inside-if-then-else-and-negation')
            else:
                clauses.append('z(%s, %s) :- %s = %s.' % (q(h), src.pick(['1', '007', 'X']), q(self.hostile(src)), q(h)))
                positions.append('argument')
        case = {'text': '\n'.join(clauses) + '\n', 'positions': positions}
        if src.n(5) == 2:
            # the program also goes through the command line (with debug options) into a FILE that is then loaded with
            # load_script_from_file: debug comments carry source text into that file
            case['file_route'] = src.pick([['--debug-generator'], ['--debug-generator', '--debug-parser'], [], ['--debug-parser'],
                                           ['--debug-generator', '--debug-parser', '--debug-filename'], ['-d']])
            if src.n(2):
                # text that a reader of the FILE could take for an encoding declaration, and a payload in that encoding
                cookie = src.pick(COOKIES)
                payload = src.pick(UTF7_PAYLOADS)
                first = src.pick(['x(%s, %s).', 'x(%s) :- y(%s).', 'x(%s(%s)).']) % (q(cookie), q(payload))
                case['text'] = first + '\n' + (case['text'] if src.n(3) == 0 else '')
                case['positions'] = ['encoding-cookie'] + (positions if case['text'].count('\n') > 1 else [])
        return case

    def case_key(self, case):
        return (case['text'] + repr(case.get('file_route') or '')) if 'text' in case else 'query %r/%d' % (case['query'], case['arity'])

    def shrink_candidates(self, case):
        if 'text' not in case:
            return
        # clauses are separated by ".\n" only where we put it; hostile atoms may contain newlines, so split on ".\n" + known starts
        parts = re.split(r"(?<=\.)\n(?=[a-z']|$)", case['text'])
        parts = [p for p in parts if p]
        for i in range(len(parts)):
            yield dict(case, text='\n'.join(parts[:i] + parts[i + 1:]) + '\n')

    def decide(self, case):
        if 'query' in case and 'text' not in case:
            return self.decide_runtime(case)
        text = case['text']
        classes = sorted(set(case.get('positions', [])))
        try:
            code = impl.compile_text(text)
        except Exception as e:      # noqa
            return OK(False, classes + ['refused(%s)' % type(e).__name__])
        detail = {'text': text}
        problems = analyse(code)
        if not problems:
            # source text reaches the output only as constants - and unchanged: every string constant of the generated
            # code is the name of an atom (or another token) of the source.  (The converse does not hold: the compiler
            # drops code that cannot be reached, e.g. after `!, fail`, and compiles directives to nothing.)
            try:
                toks = recog.lex(text)
                if not any(t[0] == 'STRING' and re.search(r"\\(?!')", t[1][1:-1]) for t in toks):
                    allowed = {recog.unquote(t[1]) if t[0] == 'STRING' else t[1] for t in toks}
                    tree = ast.parse(code)
                    have = {n.value for n in ast.walk(tree) if isinstance(n, ast.Constant) and isinstance(n.value, str)}
                    extra = sorted(have - allowed)
                    if extra:
                        problems = ['string constant %r of the output is not the name of any atom of the source (text altered on the way)' % extra[0]]
            except (recog.LexError, RecursionError):
                pass
        if problems:
            detail['problems'] = problems[:6]
            detail['output'] = code[-1500:]
            kind = problems[0].split(' in ')[0].split(':')[0]
            kind = re.sub(r"'[^']*'", 'X', kind)[:60]
            return FAIL('generated-code:' + kind, detail)
        # canary
        called = []

        def canary(*a, **k):
            called.append(a)
            return iter(())
        yp = impl.BudgetYP(400)
        impl.WORK['limit'] = 400000
        used_before = len(text) % 3 == 0
        if used_before:
            # not a new engine: one that has loaded a program, answered a query and was cleared
            yp.load_script_from_string('def old_1(arg1):\n  for l1 in unify(arg1, atom("a")):\n    yield False\n')
            for _ in yp.query('old', [yp.variable()]):
                pass
            yp.clear()
            yp._n = 0
        yp.eval_context['canary'] = canary
        before = set(yp.eval_context)
        try:
            yp.load_script_from_string(code)
        except Exception as e:      # noqa
            detail['error'] = '%s: %s' % (type(e).__name__, e)
            return FAIL('load-raises:' + type(e).__name__, detail)
        if called:
            return FAIL('canary-called-at-load-time', detail)
        mod = ast.parse(code)
        defs = sorted(n.name for n in mod.body)
        added = sorted(set(yp.eval_context) - before)
        if added != sorted(set(defs)):
            detail['keys_added'] = added
            return FAIL('context-keys-differ-from-definitions', detail)
        # what the loaded functions can see: the names of the engine context (the API, the script's own definitions) and
        # no Python builtins - a context without a '__builtins__' entry is given the real ones by exec
        for name in defs:
            fn = yp.eval_context.get(name)
            g = getattr(fn, '__globals__', None)
            if g is None:
                continue
            b = g.get('__builtins__', None)
            visible = sorted(b if isinstance(b, dict) else dir(b)) if '__builtins__' in g else ['<all of builtins: no __builtins__ entry>']
            if visible:
                detail['builtins_visible'] = visible[:8]
                detail['engine_used_and_cleared_before'] = used_before
                return FAIL('loaded-code-sees-python-builtins', detail)
        try:
            exp = None
            if recog.in_language(text):
                cl, plain = recog.split_clauses(text)
                if plain:
                    exp = sorted({'%s_%d' % c['head'] for c in cl if 'head' in c})
            if exp is not None and exp != sorted(set(defs)):
                detail['expected_defs'] = exp
                detail['defs'] = defs
                return FAIL('definitions-differ-from-heads', detail)
        except RecursionError:
            pass
        import sys
        for name in defs:
            m = re.match(r'^(.*)_(\d+)$', name, re.S)
            args = [yp.variable() for _ in range(int(m.group(2)))]
            yp._n = 0
            impl.WORK['n'] = 0
            old = sys.getrecursionlimit()
            sys.setrecursionlimit(1200)
            try:
                for i, _ in enumerate(yp.eval_context[name](*args)):
                    if i >= 2:
                        break
            except (Budget, RecursionError):
                pass
            except Exception:       # noqa  (YPException for non-callable goals etc. - semantics are other properties' business)
                pass
            finally:
                sys.setrecursionlimit(old)
            if called:
                detail['function'] = name
                return FAIL('canary-called-at-run-time', detail)
        if case.get('file_route') is not None:
            r = self.file_route(text, case['file_route'], sorted(set(defs)), detail)
            if r is not None:
                return r
            classes = classes + ['file-route:' + (' '.join(case['file_route']) or 'no-debug-options')]
        risky = any(ch in text for ch in ('"', '\n', '(', ')', ':', "\\'")) and any(p != 'argument' for p in classes)
        return OK(risky, classes + ['accepted'])

    def file_route(self, text, flags, defs, detail):
        """command line (with debug options) -> output file -> load_script_from_file: the canary is never called, the
        context gains exactly the definitions"""
        import os, sys, tempfile, shutil
        from click.testing import CliRunner
        d = tempfile.mkdtemp(prefix='verif-c12-')
        try:
            srcp, outp = os.path.join(d, 'x.prolog'), os.path.join(d, 'x.py')
            with open(srcp, 'w', encoding='utf8', newline='') as f:
                f.write(text)
            r = CliRunner().invoke(impl.compiler.main, list(flags) + ['-o', outp, srcp])
            detail = dict(detail, command_line=' '.join(list(flags) + ['-o', 'x.py', 'x.prolog']))
            if r.exit_code != 0 or not os.path.exists(outp):
                return None          # refused on this route: nothing is asserted (C19 compares the routes)
            called = []
            yp = impl.BudgetYP(400)
            impl.WORK['limit'] = 400000
            yp.eval_context['canary'] = lambda *a, **k: (called.append(a), iter(()))[1]
            before = set(yp.eval_context)
            try:
                yp.load_script_from_file(outp)
            except Exception as e:      # noqa
                with open(outp, 'rb') as f:
                    detail['file_head'] = repr(f.read(400))
                detail['error'] = '%s: %s' % (type(e).__name__, str(e)[:200])
                return FAIL('file-route:load-raises:' + type(e).__name__, detail)
            if called:
                return FAIL('file-route:canary-called-at-load-time', detail)
            added = sorted(set(yp.eval_context) - before)
            if added != defs:
                detail['keys_added'] = added
                detail['definitions'] = defs
                return FAIL('file-route:context-keys-differ-from-definitions', detail)
            for name in defs:
                m = re.match(r'^(.*)_(\d+)$', name, re.S)
                args = [yp.variable() for _ in range(int(m.group(2)))]
                yp._n = 0
                impl.WORK['n'] = 0
                old = sys.getrecursionlimit()
                sys.setrecursionlimit(1200)
                try:
                    for i, _ in enumerate(yp.eval_context[name](*args)):
                        if i >= 2:
                            break
                except (Budget, RecursionError):
                    pass
                except Exception:       # noqa
                    pass
                finally:
                    sys.setrecursionlimit(old)
                if called:
                    detail['function'] = name
                    return FAIL('file-route:canary-called-at-run-time', detail)
            return None
        finally:
            shutil.rmtree(d, ignore_errors=True)


    def fuzz_campaign(self, tier, seed):
        """thorough tier: coverage-guided campaign through the same decision function; every failure is re-decided here"""
        from .. import fuzzdrv
        from ..runner import OK
        if tier != 'thorough':
            return []
        info, fails = fuzzdrv.campaign(self.id, seed)
        self.fuzz_info = info
        out = []
        for f in fails:
            case = f['case']
            out.append((case, self.decide(case)))
        return out

    # ------------------------------------------------------------------ run-time table, enumerated exhaustively
    def extra_checks(self, tier, seed):
        fz = self.fuzz_campaign(tier, seed)
        return fz + self.long_atom_sweep() + self.runtime_table(tier, seed)

    def long_atom_sweep(self):
        """enumerated: atoms of 90-112 and 190-212 characters ending in an escaped character followed by text that
        would be valid Python if a string literal ended early - in argument, functor-name and goal-name position"""
        out = []
        for n in list(range(90, 113)) + list(range(190, 213)):
            for esc in ('\n', '\r', "'"):
                for payload in ('ot in "" and canary())):#', '"" or canary())):#', ")+canary()+('"):
                    name = 'A' * n + esc + payload
                    for tmpl in ('p(%s).\n', 'p(X) :- X = %s(a).\n'):
                        case = {'text': tmpl % q(name), 'positions': ['long-atom-sweep']}
                        out.append((case, self.decide(case)))
        return out

    def decide_runtime(self, case, yp0=None):
        """one entry of the run-time table: a query for name/arity that no program defines must find nothing, call
        nothing and change nothing"""
        name, arity = case['query'], case['arity']
        yp0 = yp0 or impl.YP()
        called = []
        yp = impl.BudgetYP(200)
        yp.load_script_from_string(impl.compile_text('p(a).\nq(X) :- p(X).\n'))
        yp.assert_fact(yp.atom('fact'), [yp.atom('k')])
        for key in list(yp.eval_context):
            if key in API_CALLABLES and key != 'query' and key != 'match_dynamic':
                orig = yp.eval_context[key]
                yp.eval_context[key] = (lambda o, k: (lambda *a, **kw: (called.append(k), o(*a, **kw))[1]))(orig, key)
        yp.eval_context['canary'] = lambda *a, **k: (called.append('canary'), iter(()))[1]
        ctx_before = dict(yp.eval_context)
        facts_before = {k: len(v) for k, v in yp._predicates_store.items()}
        args = [yp.atom('k') if i == 0 else yp.variable() for i in range(arity)]
        try:
            answers = 0
            for _ in yp.query(name, args):
                answers += 1
                if answers > 3:
                    break
        except Exception as e:      # noqa
            return FAIL('runtime-query-raises:' + type(e).__name__, {'query': '%r/%d' % (name, arity), 'error': '%s: %s' % (type(e).__name__, e)})
        if answers:
            return FAIL('runtime-query-has-answers', {'query': '%r/%d' % (name, arity), 'answers': answers})
        if called:
            return FAIL('runtime-query-reached-api', {'query': '%r/%d' % (name, arity), 'called': called[:5]})
        if dict(yp.eval_context) != ctx_before or {k: len(v) for k, v in yp._predicates_store.items()} != facts_before:
            return FAIL('runtime-query-changed-engine-state', {'query': '%r/%d' % (name, arity)})
        return OK(name in yp0.eval_context or name in dir(yp0), ['runtime-table'])

    def runtime_table(self, tier, seed):
        import builtins
        yp0 = impl.YP()
        names = set(yp0.eval_context) | set(yp0.eval_blacklist) | set(dir(yp0)) | set(dir(builtins))
        names |= {'functor', 'functor1', 'functor4', 'query', 'x_n', 'call_n', 'match', 'ATOM_NIL', 'os', 'sys', 'eval', 'exec',
                  '__import__', 'open', 'canary', 'self', 'yp', 'engine', 'eval_context', '_atom_store', '', ' ', 'p', 'p_1', 'q_n'}
        names |= {n[:-2] for n in yp0.eval_context if re.match(r'.*_\d$', n)} | {n[:-2] for n in yp0.eval_context if n.endswith('_n')}
        legit = {('=', 2), ('\\=', 2), ('findall', 3), ('once', 1), ('assertz', 1), ('asserta', 1), ('retract', 1), ('retractall', 1)}
        out = []
        n_checked = 0
        for name in sorted(names):
            if name == 'call':
                continue        # call/N is a variadic builtin; call/0 is outside the property (see DESIGN.md)
            for arity in range(4):
                if (name, arity) in legit or (name in ('p', 'q') and arity in (1,)):
                    continue
                case = {'query': name, 'arity': arity}
                o = self.decide_runtime(case, yp0)
                if not o.signature.startswith('runtime-query-raises'):
                    n_checked += 1
                out.append((case, o))
        self.table_size = n_checked
        return out


PROP = C12()

"""C06 - disjunction, if-then-else and negation follow standard semantics."""
from .. import gen
from . import common as C
from . import bodies as B
from .c05 import C05


class C06(C05):
    id = 'C06'
    title = 'Disjunction, if-then-else and negation follow standard semantics'
    technique = ('property-based differential testing against a reference interpreter (Hypothesis) + '
                 'bounded-exhaustive enumeration of body trees; metamorphic: minimal vs full parenthesisation')
    rule = ('(a) random body trees up to 7 leaves over calls, =, \\=, true, fail, !, ",", ";", "->", (->;), \\+ nested '
            'arbitrarily, printed either with the minimal parentheses implied by "," < "->" < ";" (right-associative) '
            'or fully parenthesised - both must behave like the tree; directed families in 3 cases of 8: a body-only variable first bound inside a branch that is not always taken and used afterwards on every path; a branch ending in a cut followed by a row of 2-4 two-way choices in the same body; sibling branches that differ only in a quoted atom printing like a variable / structure; also cut idioms, bodies of 10-18 goals with a late cut, programs loaded as two scripts; (b) bounded-exhaustive bodies (<= 2 leaves and a quarter of the 3-leaf ones; thorough: all <= 3 leaves and all 4-leaf ones without negation) '
            'containing ";", "->" or \\+. Answers compared with reference R. Non-trivial = the reference run took an '
            'if-then-else/\\+ decision or a disjunction, and the program has >= 2 answers or nesting of two control '
            'constructs; distinct = SHA-1 of program text + queries.')
    cases = {'quick': 2400, 'thorough': 40000}
    cfg = gen.with_cfg(control=frozenset(['cut', ';', 'ite', '->', 'not']), max_body=7)
    full_parens_choice = True
    enum_focus = 'bodies that contain ";", "->" or \\+'

    def keep_body(self, b):
        return B.has(b, (';', '->', 'not'))

    def nontrivial(self, clauses, q, st, ref, it, feats, classes):
        if st != 'done':
            return False
        ev = it.events & {'ite-then', 'ite-else', 'not-fails', 'not-succeeds'}
        for e in ev:
            classes.add(e)
        ctl = feats & {'has-;', 'has-->', 'has-not', 'has-ite'}
        if not ctl:
            return False
        return bool(ev or 'has-;' in feats) and (len(ref) >= 2 or len(ctl) >= 2)


PROP = C06()

"""C03 - backtracking leaves no trace, however a query ends."""
import gc
from ..terms import tt, show, canon, term_vars, sto, unify as runify, resolve, Budget
from ..runner import OK, DISCARD, FAIL
from .. import history as H
from .. import gen
from .. import impl
from . import common as C
from .c20 import C20, Boom, BOOMS
from . import c02 as U


class ConsumerError(Exception):
    pass


class ProjectionError(RuntimeError):
    pass


ENDINGS = ['exhaust', 'close', 'drop', 'throw', 'pyraise', 'bounded-proj-raise-runtime', 'bounded-proj-raise-value', 'close', 'drop']


class C03(C20):
    id = 'C03'
    title = 'Backtracking leaves no trace, however a query ends'
    technique = 'property-based fault/abandonment injection (Hypothesis): every ending of a query generator, invariant over a registry of all engine variables + differential against a reference interpreter'
    rule = ('random programs (all control constructs, meta-calls, no database operations) with 0-2 fact predicates '
            're-implemented as registered Python generators, a query, and an ENDING: run to exhaustion | close() after '
            'the k-th answer | drop the last reference after the k-th answer (del + gc.collect) | throw() of a consumer '
            'exception at answer k | a Python predicate raising at its n-th solution | evaluate_bounded whose '
            'projection raises (RuntimeError subclass / ValueError) at answer k while the caller keeps the generator, '
            'with k in 0..#answers; plus bare unify generators under a stack of open unifications ended by close / drop / '
            'throw. Invariants: (1) afterwards every engine Variable ever constructed in the process (harness-side '
            'registry wrapped around Variable.__init__, so clause-local variables count) is unbound; (2) at every answer '
            'the query tuple equals R\'s answer; (3) re-running the query on the same engine with the SAME variable '
            'objects gives the reference answer sequence again. Non-trivial = ending other than exhaustion, the run '
            'created internal variables and >= 1 variable was bound at the abandonment point; distinct = SHA-1 of '
            'program, python predicates, query and ending.')
    assumptions = ['CPython 3.12 reference counting finalises an abandoned generator as soon as its last reference dies (the property names this mechanism); del endings also call gc.collect()',
                   'reference interpreter R', 'queries are side-effect free (no assert/retract generated)']
    cases = {'quick': 2400, 'thorough': 50000}
    cfg = gen.with_cfg(control=frozenset(['cut', ';', 'ite', '->', 'not']), meta=True, library=True, min_clauses=3, max_clauses=9)
    genome = {'quick': 450, 'thorough': 450}

    def decode(self, src):
        if src.n(8) == 7:
            c = U.C02.decode(U.PROP, src)
            c['kind'] = 'unify'
            c['ending'] = src.pick(['close', 'drop', 'throw', 'exhaust'])
            c['deferred'] = src.n(3) == 2
            return c
        case = C20.decode(self, src)
        if src.n(2) == 0:
            # no python predicates: everything compiled
            case['replaced'] = []
            case['mixed_text'] = case['text']
        case['dyn'] = []
        if src.n(3) == 2:
            # dynamic facts with numeric columns beside the program (read-only during the query: still side-effect
            # free); queries pair a variable with a number in an earlier position and numbers in later ones
            keys = [(h[1], len(h[2])) for h, _ in tt(case['clauses']) if h[0] == 'f' and len(h[2]) >= 2]
            name, n = src.pick(keys) if keys and src.n(2) else ('edge', 2 + src.n(2))
            for _ in range(2 + src.n(3)):
                case['dyn'].append(('f', name, tuple(('i', 1 + src.n(3)) for _ in range(n))))
            qs = list(case['queries'])
            qs[0] = ('f', name, tuple(gen.QVARS[i % 3] if (i == 0 or src.n(3) == 0) else ('i', 1 + src.n(3)) for i in range(n)))
            case['queries'] = qs
        for r in case['replaced']:
            r['raise_at'] = 0
        case['queries'] = case['queries'][:2]
        case['ending'] = {'kind': src.pick(ENDINGS), 'k': src.n(6), 'n': 1 + src.n(5)}
        # sometimes a query variable is bound by an outer, still open unification while the query runs; it is released
        # afterwards and the query re-run on the same argument list with the variable unbound
        case['prebind'] = [src.n(3), gen.gen_term(src, [], self.cfg, 1)] if src.n(4) == 3 else None
        if case['ending']['kind'] == 'pyraise' and not case['replaced']:
            case['ending']['kind'] = 'close'
        # a most general query for one of the program's predicates: the shape that most often has several answers
        heads = [h for h, _ in tt(case['clauses']) if h[0] == 'f']
        if heads:
            h = src.pick(heads)
            case['queries'] = list(case['queries']) + [('f', h[1], tuple(gen.QVARS[i % 3] if i < 3 else ('v', 'Q%d' % i) for i in range(len(h[2]))))]
        case['kind'] = 'query'
        return case

    def sample_view(self, case):
        if case.get('kind') == 'soak':
            return dict(case, text=self.SOAK_TEXT)
        if case.get('kind') == 'unify':
            v = U.C02.sample_view(U.PROP, case)
            v['ending'] = case['ending']
            return v
        v = C20.sample_view(self, case)
        v['ending'] = case['ending']
        return v

    def case_key(self, case):
        if case.get('kind') == 'soak':
            return 'soak%d' % case['n']
        if case.get('kind') == 'unify':
            return repr((case['stack'], case['t1'], case['t2'], case['ending']))
        return repr((case['text'], case['replaced'], case['queries'], case['ending']))

    def shrink_candidates(self, case):
        if case.get('kind') == 'soak':
            return
        if case.get('kind') == 'unify':
            for c in U.C02.shrink_candidates(U.PROP, case):
                yield c
            return
        for c in C20.shrink_candidates(self, case):
            yield c
        e = case['ending']
        if e['k'] > 0:
            yield dict(case, ending=dict(e, k=e['k'] - 1))

    # ------------------------------------------------------------------
    SOAK_TEXT = ('d(1). d(2). d(3).\np(X) :- d(X), q(X).\nq(X) :- d(Y), X = Y.\nr(X) :- ( d(X), X = 2 -> true ; X = none ).\n'
                 's(X) :- once(d(X)).\nt(X) :- \\+ \\+ d(X), d(X), !.\n')

    def extra_checks(self, tier, seed):
        """soak: ONE engine on which thousands of queries are abandoned in every way (closed after the first answer,
        dropped, ended by an exception thrown into them, cut short by cut / once / if-then-else inside); afterwards the
        queries give the answers they gave at the start and no variable is bound"""
        case = {'kind': 'soak', 'n': 4000 if tier == 'quick' else 40000}
        return [(case, self.decide(case))]

    def decide_soak(self, case):
        class Stop(Exception):
            pass
        try:
            yp = impl.YP()
            yp.load_script_from_string(impl.compile_text(self.SOAK_TEXT))
            names = ['p', 'r', 's', 't', 'd']

            def full(name):
                v = yp.variable()
                return [impl.to_python(v) for _ in yp.query(name, [v])]
            start = {n: full(n) for n in names}
            if start != {'p': [1, 2, 3], 'r': [2], 's': [1], 't': [1], 'd': [1, 2, 3]}:
                return FAIL('soak:wrong-answers-at-the-start', {'text': self.SOAK_TEXT, 'answers': start})
            for i in range(case['n']):
                name = names[i % len(names)]
                v = yp.variable()
                g = yp.query(name, [v])
                next(g)
                k = i % 3
                if k == 0:
                    g.close()
                elif k == 1:
                    del g
                else:
                    try:
                        g.throw(Stop())
                    except Stop:
                        pass
            gc.collect()
            end = {n: full(n) for n in names}
            if end != start:
                return FAIL('soak:answers-change-after-many-abandoned-queries', {'text': self.SOAK_TEXT, 'abandoned': case['n'], 'at_the_start': start, 'now': end})
            if impl.bound_variables():
                return FAIL('soak:variables-still-bound', {'text': self.SOAK_TEXT, 'bound': len(impl.bound_variables())})
        except Exception as e:      # noqa
            return FAIL('soak:exception:' + impl.exc_signature(e), {'text': self.SOAK_TEXT, 'error': '%s: %s' % (type(e).__name__, str(e)[:200])})
        return OK(True, ['soak:%d-queries-abandoned-on-one-engine' % case['n']])

    def decide(self, case):
        if case.get('kind') == 'soak':
            return self.decide_soak(case)
        if case.get('kind') == 'unify':
            return self.decide_unify(case)
        clauses = tt(case['clauses'])
        replaced = case['replaced']
        ending = case['ending']
        comp = C.compile_case(case['mixed_text']) if case['mixed_text'].strip() else ('ok', '')
        if comp[0] == 'exc':
            return FAIL(comp[1], {'text': case['mixed_text'], 'error': comp[2]})
        from ..refint import as_program
        rk = {(r['name'], r['arity']) for r in replaced}
        prog = as_program([(h, b) for h, b in clauses if (h[1], len(h[2]) if h[0] == 'f' else 0) not in rk])
        variadic = {}
        for r in replaced:
            rows = [tuple(x) for x in tt(r['rows'])]
            if r['style'] == 'variadic':
                variadic[r['name']] = ('rows', rows)
            else:
                prog[(r['name'], r['arity'])] = [('rows', rows)]
        classes = set()
        nontrivial = False
        decided = 0
        dyn = tt(case.get('dyn') or [])

        def ref_setup(it):
            for t in dyn:
                it.assert_fact(t)
        prebind = tt(case.get('prebind')) if case.get('prebind') else None
        for q in tt(case['queries']):
            q_unbound = q
            pre = None
            if prebind is not None and q[0] == 'f':
                qv = [v for v in term_vars(q, [])]
                if qv:
                    pv = qv[prebind[0] % len(qv)]
                    pre = (pv, prebind[1])

                    def subst(t):
                        if t == pv:
                            return prebind[1]
                        if t[0] == 'f':
                            return ('f', t[1], tuple(subst(a) for a in t[2]))
                        return t
                    q = subst(q)
            st, ref, it = C.run_ref(prog, q, variadic=variadic, setup=ref_setup)
            if 'findall-nonground-instance' in it.events or st == 'unspec':
                continue
            if st == 'budget':
                continue
            decided += 1
            ref_unbound = None
            if pre is not None:
                st_u, ref_u, it_u = C.run_ref(prog, q_unbound, variadic=variadic, setup=ref_setup)
                if st_u == 'unspec' or 'findall-nonground-instance' in it_u.events or st_u == 'budget':
                    pre = None
                    q = q_unbound
                    st, ref, it = st_u, ref_u, it_u
                    if st in ('unspec', 'budget') or 'findall-nonground-instance' in it.events:
                        decided -= 1
                        continue
                else:
                    ref_unbound = (st_u, ref_u, it_u)
            r = self.run_ending(case, comp[1], q_unbound if pre is not None else q, st, ref, it, ending, pre, ref_unbound)
            if isinstance(r, tuple):
                return FAIL(r[0], dict(self.detail(case, q, ref, None, r[1]), ending=ending))
            classes |= r['classes']
            nontrivial = nontrivial or r['nontrivial']
        if decided == 0:
            return DISCARD('all queries unspecified or unbounded')
        return OK(nontrivial, sorted(classes))

    def run_ending(self, case, code, q, st, ref, it, ending, pre=None, ref_unbound=None):
        kind = ending['kind']
        kk = ending['k']
        n_ref = len(ref)
        k = {0: 0, 1: min(1, n_ref), 2: n_ref // 2, 3: max(0, n_ref - 1), 4: n_ref}.get(kk, kk % (n_ref + 1))
        gc.collect()
        stale = impl.bound_variables()
        if stale:
            return ('variables-bound-before-the-run', '%d engine variables are bound before anything started (left over from an earlier case?)' % len(stale))
        nvars0 = len(impl.REGISTRY)
        counter = {'n': 0}
        log = []
        try:
            yp = impl.BudgetYP(10 * it.steps + 500)
            if code:
                yp.load_script_from_string(code)
            for t in tt(case.get('dyn') or []):
                vm = {}
                yp.assert_fact(yp.atom(t[1]), [impl.to_engine(yp, x, vm) for x in (t[2] if t[0] == 'f' else ())])
            for r in case['replaced']:
                rows = [tuple(x) for x in tt(r['rows'])]
                r2 = dict(r, raise_at=(ending['n'] if kind == 'pyraise' else 0))
                fn = self.make_func(yp, r2, rows, log, counter)
                yp.register_function(r['name'], fn, **({} if r['style'] in ('inferred', 'inferred-wrapped') else {'arity': r['arity'] if r['style'] in ('explicit', 'explicit-varargs') else H.variadic_arity(r['name'], r['arity'])}))
            name, args = impl.goal_parts(q)
            vmap = {}
            eargs = [impl.to_engine(yp, a, vmap) for a in args]
            outer = None
            if pre is not None:
                from yldprolog.engine import unify as _unify
                outer = iter(_unify(vmap[pre[0]], impl.to_engine(yp, pre[1], {})))
                next(outer)

            def answer():
                seen = {}
                return q if q[0] == 'a' else ('f', name, tuple(impl.reify(a, seen) for a in eargs))
            g = yp.query(name, eargs)
            out = []
            bound_at_end = 0
            raised = None
            try:
                if kind.startswith('bounded-proj-raise'):
                    exc = ProjectionError if kind.endswith('runtime') else ValueError
                    cnt = {'i': 0}

                    def proj(x):
                        cnt['i'] += 1
                        out.append(answer())
                        if cnt['i'] > k:
                            cnt['bound'] = len(impl.bound_variables())
                            raise exc('projection')
                        return None
                    import sys
                    try:
                        yp.evaluate_bounded(g, proj, recursion_limit=sys.getrecursionlimit())
                    except ValueError:
                        pass
                    bound_at_end = cnt.get('bound', 0)
                    # the caller still holds g here, as in the documented usage
                    n_common = min(len(out), len(ref))
                    if out[:n_common] != ref[:n_common] or (st == 'done' and len(out) > len(ref)):
                        return ('answers-differ', 'answers seen by the projection %r expected prefix of %r' % (C.answers_view(out), C.answers_view(ref)))
                    out = out[:k]
                else:
                    while len(out) < k or kind in ('exhaust', 'pyraise'):
                        try:
                            next(g)
                        except StopIteration:
                            break
                        out.append(answer())
                        if st != 'done' and len(out) >= len(ref):
                            break
                        if len(out) > len(ref) + 1:
                            break
                    bound_at_end = len(impl.bound_variables())
                    if kind in ('exhaust', 'pyraise') and st != 'done':
                        g.close()        # the search is unbounded: stop after the reference's prefix
                    if kind == 'close':
                        g.close()
                    elif kind == 'drop':
                        del g
                        gc.collect()
                    elif kind == 'throw':
                        try:
                            g.throw(ConsumerError('consumer'))
                            return ('throw-swallowed', 'the query generator swallowed the exception thrown by its consumer')
                        except ConsumerError:
                            pass
                        except StopIteration:
                            return ('throw-swallowed', 'the query generator swallowed the exception thrown by its consumer')
            except tuple(BOOMS) as e:
                if e.args[:1] != ('boom',):
                    raise
                raised = e
                bound_at_end = -1
            # (2) answers seen so far
            exp = ref[:len(out)]
            if kind in ('exhaust', 'pyraise') and raised is None:
                exp = ref
            if out != exp:
                return ('answers-differ', 'answers %r expected %r' % (C.answers_view(out), C.answers_view(exp)))
            # (1) every variable unbound again
            gc.collect()
            left = impl.bound_variables()
            if outer is not None:
                left = [v for v in left if v is not vmap[pre[0]]]
            if left:
                return ('variables-still-bound:' + kind.split('-')[0], '%d engine variables are still bound after the query ended by %s at k=%d' % (len(left), kind, k))
            internal = len(impl.REGISTRY) - nvars0 - len(vmap)
            if outer is not None:
                if [v for v in impl.bound_variables() if v is not vmap[pre[0]]]:
                    return ('variables-still-bound:' + kind.split('-')[0], 'variables other than the outer binding are still bound')
                outer.close()
                st, ref, it = ref_unbound
                yp._budget = 10 * it.steps + 500
            # (3) same query, same engine, same variable objects
            counter['n'] = -10 ** 9
            yp._n = 0
            impl.WORK['n'] = 0
            st2, out2 = 'done', []
            g2 = yp.query(name, eargs)
            try:
                for _ in g2:
                    out2.append(answer())
                    if len(out2) >= len(ref) + (1 if st == 'done' else 0):
                        st2 = 'limit'
                        break
            finally:
                g2.close()
            sig = C.compare_answers(st, ref, st2 if st == 'done' else 'limit', out2)
            if sig:
                return ('rerun:' + sig, 're-running the query on the same engine and variables gave %r expected %r' % (C.answers_view(out2), C.answers_view(ref)))
            gc.collect()
            if impl.bound_variables():
                return ('variables-still-bound:rerun', 'variables bound after the re-run was closed')
        except impl.ImplWork:
            return {'classes': {'too-expensive(term-copying work budget)'}, 'nontrivial': False}
        except impl.ImplBudget:
            return ('impl-does-not-terminate', 'step budget')
        except RecursionError as e:
            return ('exception:RecursionError', str(e)[:100])
        except tuple(BOOMS) as e:
            if e.args[:1] == ('boom',):
                return ('exception:Boom-escaped-late', repr(e))
            return ('exception:' + impl.exc_signature(e), '%s: %s' % (type(e).__name__, str(e)[:300]))
        except Exception as e:      # noqa
            return ('exception:' + impl.exc_signature(e), '%s: %s' % (type(e).__name__, str(e)[:300]))
        classes = {'ending:' + kind, 'k=%s' % ('0' if k == 0 else 'last' if k == len(ref) else 'middle')}
        if raised is not None:
            classes.add('python-predicate-raised')
        if bound_at_end > 0:
            classes.add('bindings-active-at-abandonment')
        if outer is not None:
            classes.add('outer-binding-active-during-the-query')
        nt = kind != 'exhaust' and internal > 0 and (bound_at_end > 0 or raised is not None)
        return {'classes': classes, 'nontrivial': nt}

    # ------------------------------------------------------------------ bare unify generators
    def decide_unify(self, case):
        from yldprolog.engine import unify
        stack = [(tt(a), tt(b)) for a, b in case['stack']]
        t1, t2 = tt(case['t1']), tt(case['t2'])
        ending = case['ending']
        try:
            s = {}
            kept = []
            for a, b in stack:
                if sto(a, b, s):
                    return DISCARD('STO in the stack')
                s2 = runify(a, b, s, check_sto=False)
                kept.append(s2 is not None)
                if s2 is not None:
                    s = s2
            if sto(t1, t2, s):
                return DISCARD('STO pair')
            s2 = runify(t1, t2, s, check_sto=False)
            obs_terms = ('f', 'obs', tuple(U.POOL) + (t1, t2))
            before_ref = canon(resolve(obs_terms, s, None, 3000))
        except Budget:
            return DISCARD('term too large')
        gc.collect()
        if impl.bound_variables():
            return FAIL('variables-bound-before-the-run', {})
        yp = impl.YP()
        vmap = {}
        pool = [U.E(yp, v, vmap) for v in U.POOL]
        gens = []
        detail = U.C02.sample_view(U.PROP, case)
        detail['ending'] = ending
        deferred = bool(case.get('deferred'))
        try:
            created = [iter(unify(U.E(yp, a, vmap), U.E(yp, b, vmap))) for (a, b) in stack] if deferred else None
            e1, e2 = U.E(yp, t1, vmap), U.E(yp, t2, vmap)
            pre_final = iter(unify(e1, e2)) if deferred else None
            for i, ((a, b), kp) in enumerate(zip(stack, kept)):
                g = created[i] if deferred else iter(unify(U.E(yp, a, vmap), U.E(yp, b, vmap)))
                try:
                    next(g)
                    gens.append(g)
                except StopIteration:
                    pass

            def observe():
                seen = {}
                return ('f', 'obs', tuple(impl.reify(x, seen) for x in pool + [e1, e2]))
            g = pre_final if deferred else iter(unify(e1, e2))
            pre_final = None          # keep exactly one reference, so that "drop" really drops the generator
            try:
                next(g)
                yielded = True
            except StopIteration:
                yielded = False
            if yielded != (s2 is not None):
                return FAIL('verdict-differs', detail)
            if ending == 'close':
                g.close()
            elif ending == 'drop':
                del g
                gc.collect()
            elif ending == 'throw' and hasattr(g, 'throw'):
                try:
                    g.throw(ConsumerError('x'))
                except (ConsumerError, StopIteration):
                    pass
            elif ending == 'throw':
                g.close()       # YPSuccess / YPFail iterators are not generators
            else:
                for _ in g:
                    return FAIL('yields-twice', detail)
            o = observe()
            if o != before_ref:
                detail['problem'] = 'after %s: %s expected %s' % (ending, show(o), show(before_ref))
                return FAIL('not-restored:' + ending, detail)
        except RecursionError:
            return FAIL('exception:RecursionError', detail)
        finally:
            for x in reversed(gens):
                x.close()
        gc.collect()
        if impl.bound_variables():
            return FAIL('variables-still-bound:unify', detail)
        return OK(ending != 'exhaust' and s2 is not None and s2 != s, ['bare-unify', 'ending:' + ending] + (['generators-created-before-started'] if deferred else []))


PROP = C03()

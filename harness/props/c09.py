"""C09 - call/N, once/1, findall/3, = and \\= agree with their standard definitions."""
from ..terms import tt
from .. import gen
from . import common as C

V = lambda n: ('v', 'H%s' % n)   # noqa: E731
HELPERS = (
    (('f', 'do', (V(1),)), ('call', ('f', 'call', (V(1),)))),
    (('f', 'do1', (V(1),)), ('call', ('f', 'once', (V(1),)))),
    (('f', 'all', (V(1), V(2), V(3))), ('call', ('f', 'findall', (V(1), V(2), V(3))))),
    (('f', 'ap', (V(1), V(2))), ('call', ('f', 'call', (V(1), V(2))))),
    (('f', 'ap', (V(1), V(2), V(3))), ('call', ('f', 'call', (V(1), V(2), V(3))))),
)
WIDE = (
    (('f', 'w8', tuple(('i', i) for i in range(8))), ('true',)),
    (('f', 'w8', tuple(('a', 'abcdefgh'[i]) for i in range(8))), ('true',)),
    (('f', 'w9', tuple(('i', i) for i in range(9))), ('true',)),
)
HELPER_PREDS = [('do', 1), ('do1', 1), ('all', 3), ('ap', 2), ('ap', 3)]


class C09(C.ProgramDiff):
    id = 'C09'
    title = 'call/N, once/1, findall/3, = and \\= agree with their standard definitions'
    technique = 'property-based differential testing against a reference interpreter (Hypothesis, byte-genome generator)'
    rule = ('random programs whose bodies use call/1..3, once/1, findall/3, = and \\= with goals in every shape: '
            'inline compound, inline atom, a variable bound at run time (directly or through a second variable), '
            'passed in through helper predicates do/1, do1/1, all/3, ap/2,3 from the query, with 0-2 extra arguments, '
            'nested meta-calls, predicates that have asserted facts beside their compiled clauses, bound / partially bound bags, templates sharing variables with the goal. Answers '
            '(bindings, order, multiplicity, no exception, no binding left by findall) compared with reference R; '
            'queries in which findall collects a non-ground instance are discarded (C09 does not say whether its variables are fresh). Non-trivial = R executed a '
            'meta-call whose goal came from a variable bound at run time, or had 0 answers, or >= 2 answers (once/'
            'findall events), and finished; distinct = SHA-1 of program text + queries.')
    assumptions = ['CPython 3.12 of /venv', 'reference interpreter R (conformance corpus, second engine)',
                   'calling an unbound variable or a number is unspecified (discarded)',
                   'findall/3 with non-ground instances: neither the ISO copy reading nor the engine\'s sharing is asserted']
    cases = {'quick': 2400, 'thorough': 40000}
    cfg = gen.with_cfg(control=frozenset(['cut', ';', 'ite', 'not']), meta=True, library=True)
    extra_clauses = HELPERS + WIDE
    dyn_facts = True

    def gen_query(self, src, preds, clauses):
        k = src.n(7)
        if k == 6:
            # call/N with many extra arguments (goal given as an atom or with a few arguments already)
            name, n = src.pick([('w8', 8), ('w9', 9)])
            keep = src.n(3)
            args = tuple(gen.QVARS[i % 3] if src.n(3) else ('i', i) for i in range(n))
            g = ('f', name, args[:keep]) if keep else ('a', name)
            return ('f', 'call', (g,) + args[keep:])
        if k >= 3:
            return gen.gen_query(src, preds, self.cfg, clauses)
        goal = gen.gen_callable(src, gen.QVARS, preds, self.cfg)
        if k == 0:
            return ('f', src.pick(['do', 'do1']), (goal,))
        if k == 1:
            return ('f', 'all', (gen.gen_template(src, gen.QVARS, goal, self.cfg), goal, src.pick(gen.QVARS)))
        if goal[0] == 'f' and len(goal[2]) >= 1:
            m = 1 + src.n(min(2, len(goal[2])))
            keep, extra = goal[2][:-m], goal[2][-m:]
            g = ('f', goal[1], keep) if keep else ('a', goal[1])
            return ('f', 'ap', (g,) + extra)
        return ('f', 'do', (goal,))

    def nontrivial(self, clauses, q, st, ref, it, feats, classes):
        if st != 'done':
            return False
        ev = it.events
        keys = {'meta-goal-from-variable', 'once-fails', 'once-answer', 'findall-0', 'findall-1', 'findall-many',
                'call/1', 'call/2', 'call/3'}
        for e in ev & keys:
            classes.add(e)
        return bool(ev & {'meta-goal-from-variable', 'once-fails', 'findall-0', 'findall-many'}) or \
            (bool(ev & {'call/1', 'call/2', 'call/3'}) and len(ref) != 1)


PROP = C09()

"""C09 - call/N, once/1, findall/3, = and \\= agree with their standard definitions."""
from ..terms import tt, show, canon, resolve, sto, unify as runify, Budget
from ..runner import OK, DISCARD, FAIL
from .. import gen
from .. import impl
from . import common as C

V = lambda n: ('v', 'H%s' % n)   # noqa: E731
HELPERS = (
    (('f', 'do', (V(1),)), ('call', ('f', 'call', (V(1),)))),
    (('f', 'do1', (V(1),)), ('call', ('f', 'once', (V(1),)))),
    (('f', 'all', (V(1), V(2), V(3))), ('call', ('f', 'findall', (V(1), V(2), V(3))))),
    (('f', 'ap', (V(1), V(2))), ('call', ('f', 'call', (V(1), V(2))))),
    (('f', 'ap', (V(1), V(2), V(3))), ('call', ('f', 'call', (V(1), V(2), V(3))))),
)
WIDE = (
    (('f', 'w8', tuple(('i', i) for i in range(8))), ('true',)),
    (('f', 'w8', tuple(('a', 'abcdefgh'[i]) for i in range(8))), ('true',)),
    (('f', 'w9', tuple(('i', i) for i in range(9))), ('true',)),
)
HELPER_PREDS = [('do', 1), ('do1', 1), ('all', 3), ('ap', 2), ('ap', 3)]


class C09(C.ProgramDiff):
    id = 'C09'
    title = 'call/N, once/1, findall/3, = and \\= agree with their standard definitions'
    technique = 'property-based differential testing against a reference interpreter (Hypothesis, byte-genome generator)'
    rule = ('random programs whose bodies use call/1..3, once/1, findall/3, = and \\= with goals in every shape: '
            'inline compound, inline atom, a variable bound at run time (directly or through a second variable), '
            'passed in through helper predicates do/1, do1/1, all/3, ap/2,3 from the query, with 0-2 extra arguments, '
            'nested meta-calls, predicates that have asserted facts beside their compiled clauses, bound / partially bound bags, templates sharing variables with the goal; meta-calls written inline as operands of ;, -> and \\+; call/N through call/M with extra arguments at both levels; a predicate combined from two scripts whose earlier part commits with a cut, called through call/N, findall and the helpers; findall asked again with the bag bound to a strict prefix of its result. Answers '
            '(bindings, order, multiplicity, no exception, no binding left by findall) compared with reference R; '
            'queries in which findall collects a non-ground instance are discarded (C09 does not say whether its variables are fresh). Non-trivial = R executed a '
            'meta-call whose goal came from a variable bound at run time, or had 0 answers, or >= 2 answers (once/'
            'findall events), and finished; distinct = SHA-1 of program text + queries.')
    assumptions = ['CPython 3.12 of /venv', 'reference interpreter R (conformance corpus, second engine)',
                   'calling an unbound variable or a number is unspecified (discarded)',
                   'findall/3 with non-ground instances: neither the ISO copy reading nor the engine\'s sharing is asserted']
    cases = {'quick': 2400, 'thorough': 40000}
    split_scripts = True
    cfg = gen.with_cfg(control=frozenset(['cut', ';', 'ite', 'not']), meta=True, library=True)
    extra_clauses = HELPERS + WIDE
    dyn_facts = True

    def decode(self, src):
        case = super().decode(src)
        sel = src.n(8)
        if sel == 4:
            # a meta-call written inline as an operand of a control construct: once(G) / call(G) / findall as the left or
            # right operand of ';', as condition, then or else branch, under negation
            clauses = list(case['clauses'])
            X, Y = ('v', 'K1'), ('v', 'K2')
            unary = [h[1] for h, _ in clauses if h[0] == 'f' and len(h[2]) == 1 and h[1] not in ('do', 'do1')]
            pa = src.pick(unary) if unary else 'w1'
            pb = src.pick(unary) if unary else 'w1'
            ga, gb = ('f', pa, (X,)), ('f', pb, (X,))
            m = src.pick([('f', 'once', (ga,)), ('f', 'call', (ga,)), ('f', 'call', (('a', pa), X)), ('f', 'findall', (X, ga, Y))])
            mc, b = ('call', m), ('call', gb)
            body = src.pick([(';', mc, b), (';', b, mc), (';', ('->', mc, ('true',)), b), (';', ('->', b, mc), ('call', ('f', '=', (X, ('a', 'none'))))),
                             (';', (',', mc, ('true',)), b), ('not', mc), (',', (';', mc, b), ('call', ('f', '=', (Y, Y)))),
                             (';', ('->', ('call', ('f', '=', (X, ('a', 'a')))), mc), mc)])
            extra = [(('f', 'mo', (X, Y)), body), (('f', 'w1', (('a', 'a'),)), ('true',)), (('f', 'w1', (('a', 'b'),)), ('true',))]
            case['clauses'] = clauses + extra
            case['text'] = gen.program_text(case['clauses'])
            case.pop('split', None)
            Q0, Q1 = gen.QVARS[0], gen.QVARS[1]
            case['queries'] = [('f', 'mo', (Q0, Q1)), ('f', 'mo', (('a', 'a'), Q1)), ('f', 'do', (('f', 'mo', (Q0, Q1)),))]
            return case
        if sel == 5:
            # a predicate whose definition is combined from two scripts, the earlier part committing with a cut: the
            # meta-call must go on with the later part exactly as the plain call does
            clauses = list(case['clauses'])
            X = ('v', 'K1')
            unary = [h[1] for h, _ in clauses if h[0] == 'f' and len(h[2]) == 1 and h[1] not in ('do', 'do1')]
            g = ('call', ('f', src.pick(unary), (X,))) if unary and src.n(2) else ('call', ('f', '=', (X, ('a', src.pick(gen.Cfg.atoms)))))
            first = [(('f', 'cs', (X,)), (',', g, ('cut',)))]
            if src.n(2):
                first.insert(0, (('f', 'cs', (('a', src.pick(gen.Cfg.atoms)),)), ('true',)))
            second = [(('f', 'cs', (('a', src.pick(gen.Cfg.atoms)),)), ('true',)) for _ in range(1 + src.n(2))]
            case['clauses'] = clauses + first + second
            case['split'] = len(clauses) + len(first)
            case['text'] = gen.program_text(case['clauses'])
            Q0, Q1 = gen.QVARS[0], gen.QVARS[1]
            goal = ('f', 'cs', (Q0,))
            qs = [('f', 'call', (('a', 'cs'), Q0)), ('f', 'do', (goal,)), ('f', 'all', (Q0, goal, Q1)), goal,
                  ('f', 'do1', (goal,)), ('f', 'ap', (('a', 'cs'), Q0))]
            i = src.n(len(qs))
            case['queries'] = [qs[i], qs[(i + 1) % len(qs)], qs[(i + 2) % len(qs)]]
        return case

    def derived_queries(self, q, ref):
        # findall through all/3 with an unbound bag: ask again with the bag bound to a strict prefix of the result (must
        # fail), to the result itself, and to the result with its last element / its tail left open
        from ..terms import mklist
        if not (q[0] == 'f' and q[1] == 'all' and len(q[2]) == 3 and q[2][2][0] == 'v' and len(ref) == 1):
            return []
        bag = ref[0][2][2]
        items = list_items(bag)
        if items is None or len(items) < 2 or len(items) > 12:
            return []
        t, g = q[2][0], q[2][1]
        F = ('v', 'Q7')
        out = [('f', 'all', (t, g, mklist(items[:-1]))), ('f', 'all', (t, g, mklist(items[:1]))),
               ('f', 'all', (t, g, mklist(items[:-1] + [F]))), ('f', 'all', (t, g, mklist(items[:-1], F))),
               ('f', 'all', (t, g, mklist(items)))]
        return out

    def gen_query(self, src, preds, clauses):
        k = src.n(7)
        if k == 6:
            # call/N with many extra arguments (goal given as an atom or with a few arguments already)
            name, n = src.pick([('w8', 8), ('w9', 9)])
            keep = src.n(3)
            args = tuple(gen.QVARS[i % 3] if src.n(3) else ('i', i) for i in range(n))
            g = ('f', name, args[:keep]) if keep else ('a', name)
            return ('f', 'call', (g,) + args[keep:])
        if k >= 3:
            return gen.gen_query(src, preds, self.cfg, clauses)
        goal = gen.gen_callable(src, gen.QVARS, preds, self.cfg)
        if k == 0:
            return ('f', src.pick(['do', 'do1']), (goal,))
        if k == 1:
            return ('f', 'all', (gen.gen_template(src, gen.QVARS, goal, self.cfg), goal, src.pick(gen.QVARS)))
        if goal[0] == 'f' and len(goal[2]) >= 2 and src.n(3) == 0:
            # call/N through call/M with extra arguments at both levels: call(call(p, A), B) is p(A, B)
            j = 1 + src.n(len(goal[2]) - 1)
            inner = ('f', 'call', (('a', goal[1]),) + goal[2][:j])
            rest = goal[2][j:]
            return src.pick([('f', 'call', (inner,) + rest), ('f', 'ap', (inner,) + rest[:2]) if len(rest) <= 2 else ('f', 'call', (inner,) + rest),
                             ('f', 'do', (('f', 'call', (inner,) + rest),))])
        if goal[0] == 'f' and len(goal[2]) >= 1:
            m = 1 + src.n(min(2, len(goal[2])))
            keep, extra = goal[2][:-m], goal[2][-m:]
            g = ('f', goal[1], keep) if keep else ('a', goal[1])
            return ('f', 'ap', (g,) + extra)
        return ('f', 'do', (goal,))

    # ------------------------------------------------------------------ = and \= on term pairs, against the reference unifier
    EQ_TEXT = 'eq9(X, Y) :- X = Y.\nneq9(X, Y) :- X \\= Y.\nnu9(X, Y) :- \\+ X = Y.\nsame9(X, X).\n'

    def extra_checks(self, tier, seed):
        """pairs of terms from C02's generator (variants with repeated variables, clashing symbols and arities, partial
        lists) under a stack of earlier, still open unifications: `=` and `\\=` called through the engine and through
        compiled clauses must agree with the reference unifier"""
        import hashlib
        from . import c02
        from ..gen import Src
        runs = 1500 if tier == 'quick' else 40000
        out = []
        for r in range(runs):
            data = hashlib.sha256(('%d/%d/eqneq' % (seed, r)).encode()).digest() * 6
            src = Src(data)
            case = c02.PROP.decode(src)
            if r % 5 == 0:
                # directed: a compound with >= 2 arguments against the same functor with ONE variable in every position -
                # unifiable position by position, but not as a whole unless all arguments agree
                name, n = src.pick([('g', 2), ('f', 2), ('h', 3)])
                args = tuple(src.pick([('a', 'a'), ('a', 'b'), ('i', 1), c02.POOL[0], ('f', 'f', (('a', 'a'),)), ('f', 'f', (c02.POOL[1],))]) for _ in range(n))
                v = c02.POOL[2 + src.n(2)]
                case['t1'] = ('f', name, args)
                case['t2'] = ('f', name, (v,) * n)
                if src.n(2):
                    case['t1'], case['t2'] = case['t2'], case['t1']
            case = {'stack': [[prolog_only(a), prolog_only(b)] for a, b in case['stack']], 't1': prolog_only(case['t1']),
                    't2': prolog_only(case['t2']), 'eqneq': True}
            o = self.decide(case)
            out.append((case, o))
            if o.status == 'fail':
                break
        return out

    def sample_view(self, case):
        if case.get('eqneq'):
            return {'stack': ['%s = %s' % (show(tt(a)), show(tt(b))) for a, b in case['stack']],
                    'pair': '%s , %s' % (show(tt(case['t1'])), show(tt(case['t2']))), 'goals': 'T1 = T2, T1 \\= T2, eq9, neq9, nu9'}
        return super().sample_view(case)

    def case_key(self, case):
        if case.get('eqneq'):
            return 'eqneq' + repr((case['stack'], case['t1'], case['t2']))
        return super().case_key(case)

    def shrink_candidates(self, case):
        if case.get('eqneq'):
            st = case['stack']
            for i in range(len(st)):
                yield dict(case, stack=st[:i] + st[i + 1:])
            for key in ('t1', 't2'):
                for t in C._smaller_terms(tt(case[key]), top=False):
                    yield dict(case, **{key: t})
            return
        yield from super().shrink_candidates(case)

    def decide(self, case):
        if case.get('eqneq'):
            try:
                return self.decide_eqneq(case)
            except Budget:
                return DISCARD('term too large')
        return super().decide(case)

    def decide_eqneq(self, case):
        from .c02 import POOL, E
        from yldprolog.engine import unify
        stack = [(tt(a), tt(b)) for a, b in case['stack']]
        t1, t2 = tt(case['t1']), tt(case['t2'])
        if any(x[0] in ('s', 'k') for x in C02_leaves(t1) + C02_leaves(t2) + [l for a, b in stack for l in C02_leaves(a) + C02_leaves(b)]):
            return DISCARD('python constants are outside C09')
        s = {}
        kept = []
        for a, b in stack:
            if sto(a, b, s):
                return DISCARD('STO in the stack')
            s2 = runify(a, b, s, check_sto=False)
            kept.append(s2 is not None)
            if s2 is not None:
                s = s2
        if sto(t1, t2, s):
            return DISCARD('STO pair')
        s2 = runify(t1, t2, s, check_sto=False)
        unifiable = s2 is not None
        obs_terms = ('f', 'obs', tuple(POOL) + (t1, t2))
        before_ref = canon(resolve(obs_terms, s, None, 3000))
        at_ref = canon(resolve(obs_terms, s2, None, 3000)) if unifiable else None
        detail = {'stack': ['%s = %s' % (show(a), show(b)) for a, b in stack], 'pair': '%s , %s' % (show(t1), show(t2)),
                  'reference': 'unifiable' if unifiable else 'not unifiable'}
        yp = impl.BudgetYP(20000)      # also resets the term-copy work counter
        yp.load_script_from_string(impl.compile_text(self.EQ_TEXT))
        vmap = {}
        pool = [E(yp, v, vmap) for v in POOL]
        gens = []
        try:
            for (a, b), k in zip(stack, kept):
                g = iter(unify(E(yp, a, vmap), E(yp, b, vmap)))
                try:
                    next(g)
                    gens.append(g)
                except StopIteration:
                    pass
            e1, e2 = E(yp, t1, vmap), E(yp, t2, vmap)

            def observe():
                seen = {}
                return ('f', 'obs', tuple(impl.reify(x, seen) for x in pool + [e1, e2]))
            for goal, positive in (('=', True), ('\\=', False), ('eq9', True), ('neq9', False), ('nu9', False), ('same9', True)):
                for swap in (False, True):
                    detail['goal'] = '%s(%s)' % (goal, 'T2, T1' if swap else 'T1, T2')
                    if observe() != before_ref:
                        return FAIL('eqneq:state-before-differs', detail)
                    g = yp.query(goal, [e2, e1] if swap else [e1, e2])
                    n = 0
                    for _ in g:
                        n += 1
                        o = observe()
                        want = at_ref if positive else before_ref
                        if o != want:
                            detail['problem'] = 'at the answer: %s expected %s' % (show(o), show(want))
                            return FAIL('eqneq:bindings-at-the-answer-differ', detail)
                        if n > 1:
                            break
                    expect = 1 if (unifiable == positive) else 0
                    if n != expect:
                        detail['problem'] = '%d answers, expected %d' % (n, expect)
                        return FAIL('eqneq:%s' % ('missing-answer' if n < expect else 'extra-answer'), detail)
                    if observe() != before_ref:
                        detail['problem'] = 'after the goal ended: %s expected %s' % (show(observe()), show(before_ref))
                        return FAIL('eqneq:not-restored', detail)
        except impl.ImplWork:
            return DISCARD('term-copy work budget')
        except RecursionError:
            return FAIL('eqneq:exception:RecursionError', detail)
        except Exception as e:     # noqa
            detail['problem'] = '%s: %s' % (type(e).__name__, str(e)[:200])
            return FAIL('eqneq:exception:' + impl.exc_signature(e), detail)
        finally:
            for g in reversed(gens):
                g.close()
        both_compound = t1[0] == 'f' and t2[0] == 'f' and t1 != t2
        classes = ['eqneq:unifiable' if unifiable else 'eqneq:not-unifiable']
        if both_compound:
            classes.append('eqneq:both-compound')
        return OK(both_compound, classes)

    def nontrivial(self, clauses, q, st, ref, it, feats, classes):
        if st != 'done':
            return False
        ev = it.events
        keys = {'meta-goal-from-variable', 'once-fails', 'once-answer', 'findall-0', 'findall-1', 'findall-many',
                'call/1', 'call/2', 'call/3'}
        for e in ev & keys:
            classes.add(e)
        return bool(ev & {'meta-goal-from-variable', 'once-fails', 'findall-0', 'findall-many'}) or \
            (bool(ev & {'call/1', 'call/2', 'call/3'}) and len(ref) != 1)


def list_items(t):
    """items of a proper list term, or None"""
    out = []
    while t[0] == 'f' and t[1] == '.' and len(t[2]) == 2:
        out.append(t[2][0])
        t = t[2][1]
    return out if t == ('a', '[]') else None


def prolog_only(t):
    """C02's Python constants replaced by atoms and integers (C09 is about Prolog terms)"""
    if t[0] == 'f':
        return ('f', t[1], tuple(prolog_only(a) for a in t[2]))
    if t[0] == 's':
        return ('a', 'str%d' % len(t[1]))
    if t[0] == 'k':
        return ('i', 2 + len(t[1]))
    return t


def C02_leaves(t):
    if t[0] == 'f':
        out = []
        for a in t[2]:
            out += C02_leaves(a)
        return out
    return [t]


PROP = C09()

"""C02 - unification computes a most general unifier, or fails."""
import itertools
from ..terms import tt, show, canon, resolve, sto, unify as runify, mklist, NIL, term_vars, Budget, Unspecified
from ..runner import Prop, OK, DISCARD, FAIL, HarnessError
from .. import impl
from . import common as C

POOL = [('v', i) for i in range(5)]
CONSTS = [('a', 'a'), ('a', 'b'), ('a', 'c'), ('a', 'f'), ('a', 'g'),      # (f and g are also names of compounds: f is not f()) ('i', 0), ('i', 1), ('s', 'a'), ('s', ''), ('a', '[]'), ('a', '1'),
          ('k', 'None'), ('k', '2.5'), ('k', "b'x'"), ('k', "('t', 1)"), ('i', -3),
          # integers beyond 2**53 (64-bit identifiers, nanosecond time stamps): neighbours that a float cannot tell apart
          ('i', 9007199254740993), ('i', 9007199254740992), ('i', 2 ** 64 + 1), ('i', 2 ** 64)]


def gterm(src, depth=0, nv=5):
    k = src.n(12)
    if k < 4:
        return POOL[src.n(nv)]
    if k < 7 or depth >= 3:
        return src.pick(CONSTS)
    if k < 9:
        name, n = src.pick([('f', 1), ('g', 2), ('f', 2), ('h', 3), ('g', 1), ('f', 0)])     # f() is a compound without arguments
        return ('f', name, tuple(gterm(src, depth + 1, nv) for _ in range(n)))
    items = [gterm(src, depth + 1, nv) for _ in range(src.n(4))]
    if items and src.n(3) == 2:
        return mklist(items, POOL[src.n(nv)])
    return mklist(items)


def mutate(src, t, nv, depth=0):
    """a variant of t: sub-terms replaced by variables, other terms, or a clashing symbol / arity"""
    k = src.n(10)
    if k == 0:
        return POOL[src.n(nv)]
    if k == 1:
        return gterm(src, depth + 1, nv)
    if t[0] == 'f':
        if k == 5 and not t[2] and t[1] != '.':
            return ('a', t[1])              # foo() -> foo
        if k == 2:
            return ('f', src.pick(['f', 'g', 'h']), t[2])                  # same arguments, maybe other name
        if k == 3 and len(t[2]) >= 1:
            return ('f', t[1], t[2][:-1])                                  # same name, other arity (down to none: f())
        return ('f', t[1], tuple(mutate(src, a, nv, depth + 1) if src.n(3) else a for a in t[2]))
    if k == 4:
        return src.pick(CONSTS)
    if k == 5 and t[0] == 'a':
        return ('f', t[1], ())              # the atom's name as a compound without arguments: another term
    return t


def E(yp, t, vmap):
    return impl.to_engine(yp, t, vmap)


class C02(Prop):
    id = 'C02'
    title = 'Unification computes a most general unifier, or fails'
    technique = 'property-based differential testing of unify against a reference unifier with explicit binding stacks (Hypothesis) + bounded-exhaustive enumeration of term pairs'
    rule = ('(a) generated: a pool of <= 5 variables, a stack of 0-3 earlier unifications opened as nested, still '
            'suspended generators, then a pair (t1, t2) of terms over atoms, ints, Python constants (str, None, float, bytes, tuple, negative int), f/1 g/2 f/2 '
            'h/3 g/1, proper and partial lists; t2 is usually derived from t1 by replacing sub-terms with variables / '
            'other terms / a clashing symbol or arity. (b) exhaustive: all ordered pairs of the 35 terms of depth <= 1 '
            'over {a, b, 1, X, Y, f/1, g/2} under the empty stack and under every single earlier binding X = t / Y = t '
            '(thorough: additionally all 1.6 million ordered pairs of the 1265 terms of depth <= 2 under the empty '
            'stack). Checked against a reference unifier: yields 0 or 1 times (a second next() stops); a unifiable pair is unified a second time while the caller closes again and drops the finished iterator of the first run (the second run\'s bindings stay); yields iff an '
            'mgu exists, at the yield the joint reification of (pool variables, t1, t2) equals the reference\'s resolved '
            'tuple up to renaming (most general, aliasing preserved, t1 and t2 identical), unify(t2, t1) from a fresh '
            'copy of the state gives the same verdict and value, as does unify(t1, u2) with u2 = t2 built by another engine instance, and as does the run in which all generators (stack and pair) are created first and started afterwards in order, closing instead of exhausting also restores, and '
            'afterwards every variable is as before. Once per run: all 400 ordered pairs of 20 constants as a Python program hands them over (1, 1.0, True, 0, 0.0, False, str, None, bytes, tuples, big ints, atoms, a()) - no reference verdict, only consistency: the same verdict at top level, swapped, as arguments of a compound, as list elements and behind a bound variable. Cases that are STO (ISO 7.3.3: some order meets the occurs check) '
            'in the stack or the pair are discarded. Non-trivial = the pair is not syntactically identical and (both '
            'terms compound, or an earlier binding is dereferenced); distinct = SHA-1 of stack + pair.')
    assumptions = ['CPython 3.12 of /venv', 'reference unifier + order-independent STO detector (self-tested against random-order Herbrand runs)',
                   'Python constants: str, non-bool int, None, 2.5, bytes, a tuple (no values that compare equal across types such as 1 == True == 1.0)']
    cases = {'quick': 16000, 'thorough': 300000}
    genome = {'quick': 120, 'thorough': 120}

    def selftest(self, tier):
        from ..stotest import sto_selftest
        n = 3000 if tier == 'quick' else 60000
        info = sto_selftest(n)
        if info['false_negatives']:
            raise HarnessError('STO detector has false negatives: %r' % info)
        return info

    def decode(self, src):
        nv = 1 + src.n(5)
        stack = []
        for _ in range(src.n(4)):
            k = src.n(3)
            a = POOL[src.n(nv)] if k else gterm(src, 0, nv)
            b = gterm(src, 1 if k else 0, nv)
            stack.append([a, b] if src.n(2) else [b, a])
        t1 = gterm(src, 0, nv)
        t2 = mutate(src, t1, nv) if src.n(4) else gterm(src, 0, nv)
        return {'stack': stack, 't1': t1, 't2': t2}

    def sample_view(self, case):
        if 'many_open' in case or 'wrapped_constants' in case:
            return case
        return {'stack': ['%s = %s' % (show(tt(a)), show(tt(b))) for a, b in case['stack']],
                'pair': '%s = %s' % (show(tt(case['t1'])), show(tt(case['t2'])))}

    def shrink_candidates(self, case):
        if 'many_open' in case or 'wrapped_constants' in case:
            return
        st = case['stack']
        for i in range(len(st)):
            yield dict(case, stack=st[:i] + st[i + 1:])
        for key in ('t1', 't2'):
            for t in C._smaller_terms(tt(case[key]), top=False):
                yield dict(case, **{key: t})

    # -- the decision function
    def decide(self, case):
        if 'many_open' in case:
            return self.decide_many_open(case)
        if 'wrapped_constants' in case:
            return self.decide_wrapped(case)
        stack = [(tt(a), tt(b)) for a, b in case['stack']]
        t1, t2 = tt(case['t1']), tt(case['t2'])
        try:
            return self._decide(stack, t1, t2)
        except Budget:
            return DISCARD('term too large')

    def _decide(self, stack, t1, t2):
        # reference
        s = {}
        kept = []
        for a, b in stack:
            if sto(a, b, s):
                return DISCARD('STO in the stack')
            s2 = runify(a, b, s, check_sto=False)
            kept.append(s2 is not None)
            if s2 is not None:
                s = s2
        if sto(t1, t2, s):
            return DISCARD('STO pair')
        s2 = runify(t1, t2, s, check_sto=False)
        obs_terms = ('f', 'obs', tuple(POOL) + (t1, t2))
        before_ref = canon(resolve(obs_terms, s, None, 3000))
        at_ref = canon(resolve(obs_terms, s2, None, 3000)) if s2 is not None else None
        detail = {'stack': ['%s = %s' % (show(a), show(b)) for a, b in stack], 'pair': '%s = %s' % (show(t1), show(t2)),
                  'reference': 'unifiable' if s2 is not None else 'not unifiable'}
        for swap, ending, other, deferred in ((False, 'exhaust', False, False), (False, 'close', False, False), (True, 'exhaust', False, False),
                                              (False, 'exhaust', True, False), (False, 'exhaust', False, True), (False, 'exhaust', False, 'method'),
                                              (True, 'close', False, 'method')):
            if True:
                r = self._run_impl(stack, kept, t1, t2, swap, ending, before_ref, at_ref, s2 is not None, other, deferred)
                if r is not None:
                    detail['variant'] = ('unify(t2,t1)' if swap else 'unify(t1,t2)') + (' with t2 built by another engine' if other else '') + (' called in method style: t.unify(u) on the term object as it is (a variable that may be bound already)' if deferred == 'method' else ' all generators created before any is started' if deferred else '')
                    detail['ending'] = ending
                    detail['problem'] = r[1]
                    return FAIL(r[0], detail)
        deref = any(v in s for v in term_vars(t1, []) + term_vars(t2, []))
        nt = t1 != t2 and ((t1[0] == 'f' and t2[0] == 'f') or deref)
        classes = ['unifiable' if s2 is not None else 'not-unifiable', 'stack-depth-%d' % sum(kept)]
        if deref:
            classes.append('earlier-binding-dereferenced')
        if any(x[0] == 's' for x in self._leaves(t1) + self._leaves(t2)):
            classes.append('python-str-constant')
        return OK(nt, classes)

    def _leaves(self, t):
        if t[0] == 'f':
            out = []
            for a in t[2]:
                out += self._leaves(a)
            return out
        return [t]

    def _run_impl(self, stack, kept, t1, t2, swap, ending, before_ref, at_ref, unifiable, other_engine=False, deferred=False):
        from yldprolog.engine import unify
        yp = impl.YP()
        vmap = {}
        pool = [E(yp, v, vmap) for v in POOL]
        gens = []
        try:
            created = None
            method = deferred == 'method'
            if method:
                deferred = False
            if deferred:
                # every unification - the stack's and the final one - is CREATED first and STARTED afterwards, in order
                # (a list of goals built up front and run as nested loops): the outcome must be the same
                created = [iter(unify(E(yp, a, vmap), E(yp, b, vmap))) for (a, b) in stack]
                pre_e1, pre_e2 = E(yp, t1, vmap), E(yp, t2, vmap)
                pre_final = iter(unify(pre_e1, pre_e2))
            for i, ((a, b), k) in enumerate(zip(stack, kept)):
                g = created[i] if deferred else iter(unify(E(yp, a, vmap), E(yp, b, vmap)))
                try:
                    next(g)
                    ok = True
                except StopIteration:
                    ok = False
                if ok != k:
                    return ('stack-unify-verdict', 'earlier unification %s = %s: implementation %s, reference %s' % (show(a), show(b), ok, k))
                if ok:
                    gens.append(g)
            e1 = E(yp, t1, vmap)
            if other_engine:
                # the right-hand term is built by ANOTHER engine instance (its atoms are other objects of the same
                # name; variables are shared through vmap): "atoms ... unify across engines"
                e2 = E(impl.YP(), t2, vmap)
            else:
                e2 = E(yp, t2, vmap)

            def observe():
                seen = {}
                return ('f', 'obs', tuple(impl.reify(x, seen) for x in pool + [e1, e2]))
            o = observe()
            if o != before_ref:
                return ('state-before-differs', 'before: %s expected %s' % (show(o), show(before_ref)))
            if method:
                # the method of the term object itself (what a Python predicate written in method style calls); on a
                # variable that is bound already it compares values and must leave that binding alone
                left, right = (e2, e1) if swap else (e1, e2)
                if not hasattr(left, 'unify'):
                    return None
                g = iter(left.unify(right))
            else:
                g = pre_final if deferred else iter(unify(e2, e1) if swap else unify(e1, e2))
            try:
                next(g)
                yielded = True
            except StopIteration:
                yielded = False
            if yielded != unifiable:
                return ('verdict-differs', 'implementation %s, reference %s' % ('yields' if yielded else 'fails', 'unifiable' if unifiable else 'not unifiable'))
            if yielded:
                o = observe()
                if o != at_ref:
                    return ('unifier-differs', 'at the yield: %s expected (mgu) %s' % (show(o), show(at_ref)))
                if ending == 'exhaust':
                    try:
                        next(g)
                        return ('yields-twice', 'a second next() produced another answer')
                    except StopIteration:
                        pass
                else:
                    g.close()
            o = observe()
            if o != before_ref:
                return ('not-restored', 'after the unification ended (%s): %s expected %s' % (ending, show(o), show(before_ref)))
            if yielded:
                # the same unification once more while the caller still holds the FINISHED iterator of the first run, closes
                # it again (no effect on a finished iterator) and drops it: the bindings of the second run stay in place
                old = g
                if method:
                    g2 = iter(left.unify(right))
                else:
                    g2 = iter(unify(e2, e1) if swap else unify(e1, e2))
                try:
                    next(g2)
                except StopIteration:
                    return ('second-run-fails', 'the same unification failed when it was run again')
                try:
                    closer = getattr(old, 'close', None)
                    if closer is not None:
                        closer()
                    del old, g, closer
                    o = observe()
                    if o != at_ref:
                        return ('finished-iterator-disturbs-later-bindings', 'second run, after the finished iterator of the first was closed again and dropped: %s expected %s' % (show(o), show(at_ref)))
                finally:
                    g2.close()
                o = observe()
                if o != before_ref:
                    return ('not-restored', 'after the second run: %s expected %s' % (show(o), show(before_ref)))
        except RecursionError:
            return ('exception:RecursionError', 'RecursionError on a finite, NSTO case')
        except Budget:
            raise
        except Exception as e:     # noqa
            return ('exception:' + impl.exc_signature(e), '%s: %s' % (type(e).__name__, str(e)[:200]))
        finally:
            for g in reversed(gens):
                g.close()
        seen = {}
        final = [impl.reify(x, seen) for x in pool]
        if final != [('v', i) for i in range(len(pool))]:
            return ('stack-not-restored', 'pool variables after closing everything: %r' % (final,))
        return None

    # -- many unifications open at the same time
    def extra_checks(self, tier, seed):
        case = {'many_open': 700 if tier == 'quick' else 3000}
        out = [(case, self.decide(case))]
        n = len(self.WRAP_VALUES)
        for i in range(n):
            for j in range(n):
                c = {'wrapped_constants': [i, j]}
                out.append((c, self.decide(c)))
        return out

    # constants as a Python program hands them over - also values that compare equal across types.  Whether 1 and 1.0 are
    # "the same constant" is not stated anywhere, so no reference verdict is used: only the property's own clause
    # "compound terms unify iff name and number of arguments agree [and the arguments unify]" - the verdict for a pair of
    # constants is the same at top level, as arguments of a compound, as list elements and behind a bound variable
    WRAP_VALUES = ["1", "1.0", "True", "0", "0.0", "False", "2", "'a'", "'1'", "None", "b'a'", "(1, 2)", "(1.0, 2)", "-1", "2 ** 64", "float(2 ** 64)",
                   "ATOM:a", "ATOM:1", "ATOM:True", "F0:a"]

    def decide_wrapped(self, case):
        from yldprolog.engine import unify
        i, j = case['wrapped_constants']
        yp = impl.YP()

        def val(k):
            src = self.WRAP_VALUES[k]
            if src.startswith('ATOM:'):
                return yp.atom(src[5:])
            if src.startswith('F0:'):
                return yp.functor(src[3:], [])
            return eval(src)

        def verdict(a, b):
            g = iter(unify(a, b))
            try:
                next(g)
            except StopIteration:
                return False
            try:
                next(g)
                return 'twice'
            except StopIteration:
                return True
        detail = {'left': self.WRAP_VALUES[i], 'right': self.WRAP_VALUES[j]}
        try:
            top = verdict(val(i), val(j))
            seen = {'top-level': top, 'swapped': verdict(val(j), val(i)),
                    'f(_)': verdict(yp.functor('f', [val(i)]), yp.functor('f', [val(j)])),
                    'g(a,_,X)': verdict(yp.functor('g', [yp.atom('a'), val(i), yp.variable()]), yp.functor('g', [yp.atom('a'), val(j), yp.atom('b')])),
                    '[_]': verdict(yp.makelist([val(i)]), yp.makelist([val(j)])),
                    '[x,_|T]': verdict(yp.listpair(yp.atom('x'), yp.listpair(val(i), yp.variable())), yp.makelist([yp.atom('x'), val(j), yp.atom('y')]))}
            X = yp.variable()
            for _ in unify(X, val(i)):
                seen['X=left, p(X)=p(right)'] = verdict(yp.functor('p', [X]), yp.functor('p', [val(j)]))
                seen['X=left, X=right'] = verdict(X, val(j))
        except Exception as e:      # noqa
            return FAIL('wrapped-constants:exception:' + impl.exc_signature(e), dict(detail, error='%s: %s' % (type(e).__name__, str(e)[:200])))
        if len(set(map(repr, seen.values()))) != 1 or top == 'twice':
            return FAIL('wrapped-constants:verdict-depends-on-the-position', dict(detail, verdicts={k: str(v) for k, v in seen.items()}))
        return OK(i != j, ['wrapped-constants:' + ('unify' if top else 'do-not-unify')])

    def decide_many_open(self, case):
        """n compound unifications g(Xi, b) = g(a, Yi) are started one after the other and ALL kept open (a deep
        conjunction, or a recursion over two long lists, does exactly that): each must yield once with Xi = a, Yi = b;
        closed in reverse order, every variable is unbound again"""
        from yldprolog.engine import unify
        n = case['many_open']
        yp = impl.YP()
        a, b = yp.atom('a'), yp.atom('b')
        xs = [yp.variable() for _ in range(n)]
        ys = [yp.variable() for _ in range(n)]
        open_ = []
        try:
            for i in range(n):
                g = iter(unify(yp.functor('g', [xs[i], b]), yp.functor('g', [a, ys[i]])))
                try:
                    next(g)
                except StopIteration:
                    return FAIL('many-open:unifiable-pair-does-not-yield', {'open_unifications': i, 'pair': 'g(X%d, b) = g(a, Y%d)' % (i, i)})
                open_.append(g)
                if impl.reify(xs[i], {}) != ('a', 'a') or impl.reify(ys[i], {}) != ('a', 'b'):
                    return FAIL('many-open:unifier-differs', {'open_unifications': i})
            for i in (0, n // 2, n - 1):
                if impl.reify(xs[i], {}) != ('a', 'a'):
                    return FAIL('many-open:earlier-binding-lost', {'index': i})
        except Exception as e:      # noqa
            return FAIL('many-open:exception:' + impl.exc_signature(e), {'open_unifications': len(open_), 'error': '%s: %s' % (type(e).__name__, str(e)[:200])})
        finally:
            for g in reversed(open_):
                g.close()
        if any(impl.get_value(v) is not v for v in xs + ys):
            return FAIL('many-open:not-restored', {'n': n})
        return OK(True, ['many-open:%d' % n])

    # -- bounded-exhaustive sub-scope
    def enumerate(self, tier):
        X, Y = POOL[0], POOL[1]
        base = [('a', 'a'), ('a', 'b'), ('i', 1), X, Y]

        def level(prev):
            out = list(base)
            out += [('f', 'f', (t,)) for t in prev]
            out += [('f', 'g', (t, u)) for t in prev for u in prev]
            return out
        d1 = level(base)
        cases = []
        for t1 in d1:
            for t2 in d1:
                cases.append({'stack': [], 't1': t1, 't2': t2})
                for v in (X, Y):
                    for t in d1:
                        cases.append({'stack': [[v, t]], 't1': t1, 't2': t2})
        desc = ('all ordered pairs of the %d terms of depth <= 1 over {a, b, 1, X, Y, f/1, g/2}, under the empty stack and '
                'under every single earlier binding X = t / Y = t with t of depth <= 1' % len(d1))
        if tier == 'thorough':
            d2 = level(d1)
            desc += '; plus all ordered pairs of the %d terms of depth <= 2 under the empty stack' % len(d2)
            for t1 in d2:
                for t2 in d2:
                    cases.append({'stack': [], 't1': t1, 't2': t2})
        return desc, cases


PROP = C02()

"""C01 - compiled clauses compute exactly Prolog's answers, in order."""
from ..terms import tt, term_vars
from ..runner import Prop, OK, DISCARD, FAIL
from .. import gen
from . import common as C


class C01(Prop):
    id = 'C01'
    title = "Compiled clauses compute exactly Prolog's answers, in order"
    technique = 'property-based differential testing against a reference SLD interpreter (Hypothesis, byte-genome program generator)'
    rule = ('programs of facts and rules over calls, =, \\=, true, fail and conjunction (2-8 clauses + optional '
            'library predicates app/mem/len/rev/sel/perm/nat) decoded from a Hypothesis byte genome, printed with '
            'generated layout, 3 queries each; compiled + loaded into a fresh engine and enumerated; answer '
            'sequence compared with reference interpreter R (bindings, order, multiplicity, aliasing, termination, '
            'no exception). Non-trivial = R finished with >= 3 calls and the case has >= 2 answers, recursion '
            'depth >= 2, a repeated head variable, aliasing in an answer, a goal followed by fail, or arity 0; '
            'distinct = SHA-1 of program text + query.')
    assumptions = ['CPython 3.12 of /venv', 'reference interpreter R (validated by conformance corpus and second engine)',
                   'STO unifications and calls of non-callable terms are discarded as unspecified']
    genome = {'quick': 400, 'thorough': 400}
    cases = {'quick': 2400, 'thorough': 40000}
    cfg = gen.with_cfg(control=frozenset())
    nqueries = 3

    def selftest(self, tier):
        return C.oracle_selftest(tier)

    def decode(self, src):
        preds, clauses = gen.gen_program(src, self.cfg)
        queries = [gen.gen_query(src, preds, self.cfg, clauses) for _ in range(self.nqueries)]
        text = gen.program_text(clauses, src)
        return {'text': text, 'clauses': clauses, 'queries': queries}

    def sample_view(self, case):
        return {'text': case['text'], 'queries': [C.show(tt(q)) for q in case['queries']]}

    def case_key(self, case):
        return case['text'] + '\x00' + repr(case['queries'])

    def shrink_candidates(self, case):
        return C.shrink_program_case(case, C.plain_text)

    def ref_run(self, clauses, q):
        return C.run_ref(clauses, q)

    def decide(self, case):
        clauses = tt(case['clauses'])
        queries = tt(case['queries'])
        comp = C.compile_case(case['text'])
        feats = C.clause_features(clauses)
        if comp[0] == 'exc':
            return FAIL(comp[1], {'text': case['text'], 'error': comp[2]})
        code = comp[1]
        classes = set()
        nontrivial = False
        decided = 0
        for q in queries:
            st, ref, it = self.ref_run(clauses, q)
            if st == 'unspec':
                classes.add('query-unspecified')
                continue
            if st == 'findall-readings-differ':
                classes.add('query-findall-readings-differ')
                continue
            if st == 'budget' and not ref:
                classes.add('unbounded-no-answer')
                continue
            r = C.impl_answers(code, q, st, ref, it.steps)
            decided += 1
            if r[0] == 'exc':
                return FAIL('exception:' + r[1], {'text': case['text'], 'query': C.show(q), 'error': r[2],
                                                   'expected': C.answers_view(ref)}, classes)
            sig = C.compare_answers(st, ref, r[1], r[2])
            if sig:
                return FAIL(sig, {'text': case['text'], 'query': C.show(q), 'expected': C.answers_view(ref),
                                  'observed': C.answers_view(r[2]), 'reference_status': st}, classes)
            classes.add('answers:%s' % ('0' if not ref else '1' if len(ref) == 1 else 'many'))
            if st != 'done':
                classes.add('unbounded-prefix')
            nt = self.nontrivial(st, ref, it, feats, classes)
            nontrivial = nontrivial or nt
        if decided == 0:
            return DISCARD('all queries unspecified or unbounded')
        classes |= {'feat:' + f for f in feats}
        return OK(nontrivial, sorted(classes))

    def nontrivial(self, st, ref, it, feats, classes):
        if st != 'done' or it.steps < 3:
            return False
        ok = False
        if len(ref) >= 2:
            ok = True
        if it.maxdepth_seen >= 2:
            classes.add('recursion-depth>=2')
            ok = True
        if C.has_aliasing(ref):
            classes.add('aliasing-in-answer')
            ok = True
        if feats & {'repeated-head-var', 'goal-then-fail', 'arity0'}:
            ok = True
        return ok


PROP = C01()

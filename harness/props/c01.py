"""C01 - compiled clauses compute exactly Prolog's answers, in order."""
from ..terms import tt, term_vars
from ..runner import Prop, OK, DISCARD, FAIL
from .. import gen
from . import common as C


class C01(C.ProgramDiff):
    id = 'C01'
    title = "Compiled clauses compute exactly Prolog's answers, in order"
    technique = 'property-based differential testing against a reference SLD interpreter (Hypothesis, byte-genome program generator)'
    rule = ('programs of facts and rules over calls, =, \\=, true, fail and conjunction (2-8 clauses + optional '
            'library predicates app/mem/len/rev/sel/perm/nat) decoded from a Hypothesis byte genome, printed with '
            'generated layout, 3 queries each (one case in ten adds a predicate whose clauses use the same variable NAME as head argument, as body-only variable and as head argument again, written with explicit names; one in eight is loaded as two scripts; in one in twelve the host program interns 40 / 700 / 5000 unused atom names, makes variables and builds terms after every answer while the query is suspended); compiled + loaded into a fresh engine and enumerated; answer '
            'sequence compared with reference interpreter R (bindings, order, multiplicity, aliasing, termination, '
            'no exception). Non-trivial = R finished with >= 3 calls and the case has >= 2 answers, recursion '
            'depth >= 2, a repeated head variable, aliasing in an answer, a goal followed by fail, or arity 0; '
            'distinct = SHA-1 of program text + query.')
    assumptions = ['CPython 3.12 of /venv', 'reference interpreter R (validated by conformance corpus and second engine)',
                   'STO unifications and calls of non-callable terms are discarded as unspecified']
    cases = {'quick': 4800, 'thorough': 40000}
    split_scripts = True
    cfg = gen.with_cfg(control=frozenset())

    def decode(self, src):
        case = super().decode(src)
        if src.n(10) == 7:
            # one predicate whose clauses use the SAME variable name in different roles: a lone head argument in one
            # clause, a body-only variable in the next, a head argument (same or another position) again later.  The text
            # is written out with explicit names, because names are what the clauses of one generated function share.
            nm = src.pick(['X', 'Y', 'Who', 'V_1', '_K'])
            other = src.pick(['Z', 'W', 'T'])
            f = lambda name, *a: ('f', name, tuple(a))      # noqa: E731
            A = lambda n: ('a', n)      # noqa: E731
            call = lambda t: ('call', t)      # noqa: E731
            v, o = ('v', 'N'), ('v', 'O')
            forms = [
                ('acc(%s, a) :- gg(%s).' % (nm, nm), (f('acc', v, A('a')), call(f('gg', v)))),
                ('acc(b, %s) :- gg(%s), %s = %s.' % (other, nm, other, nm), (f('acc', A('b'), o), (',', call(f('gg', v)), call(f('=', o, v))))),
                ('acc(%s, c) :- gg(%s).' % (nm, nm), (f('acc', v, A('c')), call(f('gg', v)))),
                ('acc(d, %s) :- gg(%s).' % (nm, nm), (f('acc', A('d'), v), call(f('gg', v)))),
                ('acc(%s, %s).' % (nm, nm), (f('acc', v, v), ('true',))),
                ('acc(e, f) :- gg(%s), %s = e.' % (nm, nm), (f('acc', A('e'), A('f')), (',', call(f('gg', v)), call(f('=', v, A('e')))))),
            ]
            order = [src.n(len(forms)) for _ in range(3 + src.n(3))]
            lines = [forms[i][0] for i in order] + ['gg(e).', 'gg(k).']
            extra = [forms[i][1] for i in order] + [(f('gg', A('e')), ('true',)), (f('gg', A('k')), ('true',))]
            base = list(case['clauses'])
            case['clauses'] = base + extra
            case['text'] = gen.program_text(base) + '\n'.join(lines) + '\n'
            case.pop('split', None)
            Q0, Q1 = gen.QVARS[0], gen.QVARS[1]
            case['queries'] = [f('acc', Q0, Q1), f('acc', Q0, A('c')), f('acc', A('k'), Q1)]
        if src.n(12) == 5:
            # the embedding program keeps using the engine while the query is suspended: it interns atom names nobody
            # uses (a few, or more than any table of a few thousand entries holds), makes variables, builds terms
            case['host_noise'] = src.pick([40, 700, 5000])
        return case


PROP = C01()

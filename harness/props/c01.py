"""C01 - compiled clauses compute exactly Prolog's answers, in order."""
from ..terms import tt, term_vars
from ..runner import Prop, OK, DISCARD, FAIL
from .. import gen
from . import common as C


class C01(C.ProgramDiff):
    id = 'C01'
    title = "Compiled clauses compute exactly Prolog's answers, in order"
    technique = 'property-based differential testing against a reference SLD interpreter (Hypothesis, byte-genome program generator)'
    rule = ('programs of facts and rules over calls, =, \\=, true, fail and conjunction (2-8 clauses + optional '
            'library predicates app/mem/len/rev/sel/perm/nat) decoded from a Hypothesis byte genome, printed with '
            'generated layout, 3 queries each; compiled + loaded into a fresh engine and enumerated; answer '
            'sequence compared with reference interpreter R (bindings, order, multiplicity, aliasing, termination, '
            'no exception). Non-trivial = R finished with >= 3 calls and the case has >= 2 answers, recursion '
            'depth >= 2, a repeated head variable, aliasing in an answer, a goal followed by fail, or arity 0; '
            'distinct = SHA-1 of program text + query.')
    assumptions = ['CPython 3.12 of /venv', 'reference interpreter R (validated by conformance corpus and second engine)',
                   'STO unifications and calls of non-callable terms are discarded as unspecified']
    cases = {'quick': 2400, 'thorough': 40000}
    split_scripts = True
    cfg = gen.with_cfg(control=frozenset())


PROP = C01()

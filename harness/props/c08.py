"""C08 - call resolution: facts first, exact arity, load order, late binding."""
from ..terms import tt, show
from ..runner import OK, DISCARD, FAIL
from .. import gen
from .. import history as H
from .hist import HistoryProp
from .c07 import gfact, CONSTS

E = 'e0'
KEYWORDS = ['class', 'del', 'in', 'is', 'pass', 'not', 'assert', 'lambda', 'def', 'if', 'import', 'global', 'yield', 'return', 'or', 'and', 'else']
PREDS = [('p', 1), ('p', 2), ('q', 1), ('r', 0), ('q', 2), ('ext', 1), ('p_1', 1), ('p_1', 0), ('q_n', 1)]
CFG = gen.with_cfg(control=frozenset(['cut', ';', 'ite']), library=False, min_clauses=1, max_clauses=5, max_body=3,
                   preds=PREDS, undefined_calls=True, odd=False, eq_goals=True)
RESERVED = ['variable', 'atom', 'functor', 'functor1', 'functor2', 'functor3', 'listpair', 'makelist', 'ATOM_NIL',
            'unify', 'match_dynamic', 'query', 'True', 'False', '__builtins__']
ROWS = [[('a', 'a')], [('a', 'b')], [('i', 1)], [('a', 'c')], [('v', 'F')]]


class C08(HistoryProp):
    id = 'C08'
    title = 'Call resolution: facts first, exact arity, load order, late binding'
    technique = 'model-based (stateful) property testing: generated load/register/assert/clear histories vs. a list-of-definitions model executed by the reference interpreter'
    rule = ('histories of 6-25 operations on one engine: load(script, overwrite on/off) with scripts drawn per history '
            'from a family over p/1, p/2, q/1, q/2, r/0, ext/1, p_1/0, p_1/1, q_n/1, wide/10-11, predicates named like Python keywords (cuts, calls to predicates defined in other scripts or '
            'registered later, undefined predicates); loads that fail (syntax error appended to the source; NameError at '
            'module level after the definitions); register_function with inferred, explicit (also for a function with one optional parameter beyond that arity) and variadic arity - any negative number - (exact '
            'and variadic for one name; for keys without a definition, or again - with other rows - for a key whose only definition is an earlier registration of the same kind, the newer function replacing the older); assert_fact; clear; calls opened and left suspended across later loads and registrations; after every step '
            'queries of every key at arities 0-3 with all-variable arguments and of unknown and API-reserved names. '
            'Model: facts key -> list, definitions key -> list (overwrite replaces by [new], combine appends), variadic '
            'name -> definition; predicted answers = R over that model (each definition its own cut scope); a failing '
            'load leaves the model unchanged; reserved names have no answers. Non-trivial = >= 3 loads touching one key, '
            'or overwrite after combine, or exact + variadic for one name, or a failing load between two successful '
            'ones; distinct = SHA-1 of the history.')
    assumptions = ['CPython 3.12 of /venv', 'reference R as executable model', 'registration over a definition loaded from a script is not generated (not stated by the property); a second registration of the same kind replaces the first (register_function: the name is made available with that function)',
                   'call with zero arguments (call/0 resolving to the variadic call/N builtin) is not generated']
    cases = {'quick': 1200, 'thorough': 25000}
    genome = {'quick': 500, 'thorough': 600}
    ref_steps = 1500
    skip_undecided = True

    def decode(self, src):
        ops = [['engine', E]]
        scripts = []
        kwnames = set()
        binames = set()
        for _ in range(2 + src.n(3)):
            preds, clauses = gen.gen_program(src, CFG)
            if src.n(4) == 3:
                # a wide predicate (arity 10 or 11) and a caller of it
                n = 10 + src.n(2)
                row = tuple(('i', i) if i else src.pick(CONSTS[:3]) for i in range(n))
                clauses = list(clauses) + [(('f', 'wide', row), ('true',)),
                                           (('f', 'p', (('v', 'W0'),)), ('call', ('f', 'wide', (('v', 'W0'),) + tuple(('v', 'W%d' % i) for i in range(1, n)))))]
            if src.n(4) == 2:
                # predicates named like Python keywords (a ported program ships its own not/1, assert/1, del/3, class/2)
                kw = [src.pick(KEYWORDS) for _ in range(2)]
                clauses = list(clauses) + [(('f', kw[0], (src.pick(CONSTS[:3]),)), ('true',)),
                                           (('f', kw[1], (('v', 'K0'), ('v', 'K1'))), (',', ('call', ('f', kw[0], (('v', 'K0'),))), ('call', ('f', '=', (('v', 'K1'), ('a', kw[0])))))),
                                           (('f', 'p', (('v', 'K0'),)), ('call', ('f', kw[1], (('v', 'K0'), ('v', 'K2')))))]
                kwnames.update(kw)
            if src.n(5) == 3:
                # a script that brings its own version of a predicate the engine has built in (a portability shim): the
                # loader treats it like any other definition
                bi = src.pick([('once', 1), ('retractall', 1), ('findall', 3), ('retract', 1)])
                clauses = list(clauses) + [(('f', bi[0], tuple(('a', 'shim%d' % i) for i in range(bi[1]))), ('true',))]
                binames.add(bi)
            scripts.append(clauses)
        route = 'string'
        if src.n(4) == 1:
            # the scripts arrive as files (one path per engine, rewritten for each load); a second version of a script that
            # differs from the first in its constants only (same length of text)
            route = 'file'
            ren = {'a': 'b', 'b': 'c', 'c': 'a'}

            def sw(t):
                if isinstance(t, tuple) and len(t) == 2 and t[0] == 'a' and t[1] in ren:
                    return ('a', ren[t[1]])
                if isinstance(t, tuple):
                    return tuple(sw(x) for x in t)
                if isinstance(t, list):
                    return [sw(x) for x in t]
                return t
            scripts.append(sw(list(scripts[src.n(len(scripts))])))
        defined = set()      # keys with a compiled or registered definition
        variadic = set()
        reg_only = set()     # keys whose only definition is a registered Python function
        names = ['p', 'q', 'r', 'ext', 'p_1', 'q_n'] + sorted(kwnames)
        open_q = []
        qid = 0

        def probes():
            out = []
            for name in names:
                for n in range(0, 3):
                    if src.n(3) != 0 or (name, n) in defined:
                        out.append(['run', E, ('f', name, tuple(('v', 'Q%d' % i) for i in range(n))) if n else ('a', name), 12])
            for name, n in sorted(binames):
                if src.n(2):
                    out.append(['run', E, ('f', name, tuple(('a', 'shim%d' % i) if src.n(2) else ('v', 'Q%d' % i) for i in range(n))), 5])
            if src.n(3) == 0:
                nm = src.pick(RESERVED)
                n = src.n(4)
                out.append(['run', E, ('f', nm, tuple(src.pick(CONSTS[:3]) if src.n(2) else ('v', 'Q%d' % i) for i in range(n))) if n else ('a', nm), 5])
            if src.n(4) == 0:
                out.append(['run', E, ('f', 'unknown', (('v', 'Q0'),)), 5])
            if src.n(5) == 0:
                n = 10 + src.n(2)
                out.append(['run', E, ('f', 'wide', tuple(('v', 'Q%d' % i) for i in range(n))), 5])
            return out
        for _ in range(4 + src.n(12)):
            k = src.n(12)
            if k < 5:
                cl = src.pick(scripts)
                mode = 'ok' if src.n(6) else src.pick(['syntax-error', 'runtime-error'])
                ops.append(['load', E, cl, src.n(2) == 0, mode])
                if mode == 'ok':
                    for h, b in cl:
                        defined.add((h[1], len(h[2]) if h[0] == 'f' else 0))
                        reg_only.discard((h[1], len(h[2]) if h[0] == 'f' else 0))
            elif k < 7:
                name, n = src.pick([('ext', 1), ('ext', 2), ('q', 1), ('p', 2), ('r', 0), ('p', 1)])
                style = src.pick(['inferred', 'explicit', 'variadic', 'explicit-optional'])
                rows = [r * n for r in ROWS[:1 + src.n(4)]]
                again = src.n(3) == 0
                if again and src.n(2):
                    rows = list(reversed(rows))[:1 + src.n(2)]       # the second registration answers differently
                if style == 'variadic':
                    # (a name is registered again only as what it was registered as before: the newer function replaces the older)
                    if name not in variadic or again:
                        ops.append(['register', E, name, 'variadic', n, rows, [bool(src.n(2))]])
                        variadic.add(name)
                elif (name, n) not in defined or ((name, n) in reg_only and again):
                    ops.append(['register', E, name, style, n, rows, [bool(src.n(2))]])
                    if (name, n) not in defined:
                        reg_only.add((name, n))
                    defined.add((name, n))
            elif k < 9:
                f = gfact(src, src.pick([('p', 1), ('q', 1), ('r', 0), ('p', 2), ('ext', 1)]))
                ops.append(['assert', E, f, src.n(3) != 2])
            elif k == 9 and src.n(2) and not open_q:
                ops.append(['clear', E])
                defined = set()
                variadic = set()
                reg_only = set()
            elif k == 10 and defined and len(open_q) < 2:
                # a call that stays suspended across later loads / registrations: it resolved when it was made
                qid += 1
                name, n = src.pick(sorted(defined))
                ops.append(['open', E, qid, ('f', name, tuple(('v', 'Q%d' % i) for i in range(n))) if n else ('a', name)])
                ops.append(['step', qid])
                open_q.append(qid)
            elif k == 11 and open_q:
                q = src.pick(open_q)
                ops.append(['step', q])
                if src.n(2):
                    ops.append(['step', q])
                    ops.append(['close', q])
                    open_q.remove(q)
            else:
                pass
            ops.extend(probes())
        for q in open_q:
            ops.append(['step', q])
            ops.append(['step', q])
            ops.append(['close', q])
        if route == 'file':
            return {'ops': ops, 'load_route': 'file'}
        return {'ops': ops}

    def classify(self, case, ops, robs, ref):
        loads = {}
        combine_seen = set()
        nt = False
        classes = set()
        okload = 0
        failed_between = False
        pending_fail = False
        var = set()
        exact = set()
        for op in ops:
            if op[0] == 'load':
                if op[4] != 'ok':
                    classes.add('failing-load:' + op[4])
                    if okload:
                        pending_fail = True
                    continue
                okload += 1
                if pending_fail:
                    failed_between = True
                for h, b in tt(op[2]):
                    key = (h[1], len(h[2]) if h[0] == 'f' else 0)
                    exact.add(key)
                for key in {(h[1], len(h[2]) if h[0] == 'f' else 0) for h, b in tt(op[2])}:
                    loads[key] = loads.get(key, 0) + 1
                    if not op[3]:
                        combine_seen.add(key)
                        classes.add('combine')
                    elif key in combine_seen:
                        classes.add('overwrite-after-combine')
                        nt = True
            elif op[0] == 'register':
                classes.add('register:' + op[3])
                if op[3] == 'variadic':
                    var.add(op[2])
                else:
                    exact.add((op[2], op[4]))
            elif op[0] == 'clear':
                classes.add('clear')
        if any(n >= 3 for n in loads.values()):
            classes.add('>=3-loads-on-one-key')
            nt = True
        if any(name in var for name, n in exact):
            classes.add('exact-and-variadic')
            nt = True
        if failed_between:
            classes.add('failing-load-between-successful-ones')
            nt = True
        return nt, classes


PROP = C08()

"""C11 - whatever the compiler accepts loads and defines exactly the program's predicates."""
import ast
import inspect
from ..runner import Prop, OK, DISCARD, FAIL, HarnessError
from .. import gen
from .. import impl
from .. import recog
from ..terms import Budget
from .c10 import defs_in, expected_defs, C10

CFG = gen.with_cfg(control=frozenset(['cut', ';', 'ite', '->', 'not']), meta=True, library=True, max_clauses=5, min_clauses=1)
NUMERALS = ['0', '00', '007', '1' * 40, '000009', '10', '0' * 30]
VARNAMES = ['True', 'False', 'None', 'ATOM_NIL', '__debug__', 'Arg1', 'L1', 'X1', 'DoBreak', 'CutIf1', '__', '_x1', '_1',
            '__builtins__', 'V_True', 'V_V_None', 'Query', 'Unify', '_arg1', 'X', 'Yield', 'Def', 'V_', 'Self', '__class__', '__name__']
HEADS = ["'hello world'(a)", "'1'(b)", "''(a)", "a = b", "if(a)", "def(a)", "'é'(a)", "class(x)", "lambda(a)", "'None'(a)",
         "'ﬁ'(a)", "import", "'x y'", "return(1)", "yield", "'a.b'(c)", "print(a)", "'A'(b)", "x1(a)", "arg1", "query(a)",
         "atom(a)", "'_'(a)", "wide(a,b,c,d,e,f,g,h,i,j)", "wide(A,B,C,D,E,F,G,H,I,J,K,L)", "'cafe\u0301'(x)", "'u\u0308ber'", "'\u1100\u1161'(a)", "'A\u030a'(z)", "__init__(a)", "not(a)", "'p\n'(a)", "\\+ a", "- a", "a/1", "[a]", "'p_1'", "p_1(a)", "pass"]
NEVER = ["fail", "fail, q", "(fail;fail)", "\\+ true", "q, fail", "(fail -> true ; fail)", "\\+ \\+ fail", "true -> fail",
         "(fail, !)", "!, fail", "fail ; fail ; fail", "(q ; r), fail"]
ARGS = ["a/1", "- 1", "+ a", "1 < 2", "=(a,b)", "a = b", "(a)", "[a|T]", "[a,|T]", "f()", "'q'(r)", "1(2)", "[]", "'[]'", "\\=(X,Y)",
        "X >= 007", "a == b", "_", "[_|_]"]


def nest(src, depth):
    """control constructs nested to the given depth"""
    if depth <= 0:
        return src.pick(['q(X)', 'true', 'r', 'X = a', '!'])
    k = src.n(5)
    inner = nest(src, depth - 1)
    if k == 0:
        return '(%s ; %s)' % (inner, src.pick(['r', 'fail']))
    if k == 1:
        return '(q(X) -> %s ; %s)' % (inner, src.pick(['true', 'r']))
    if k == 2:
        return '\\+ (%s)' % inner.replace('!', 'true')
    if k == 3:
        return '(%s, %s)' % (src.pick(['q(Y)', 'true']), inner)
    return '(r -> %s)' % inner


class C11(Prop):
    id = 'C11'
    title = "Whatever the compiler accepts loads and defines exactly the program's predicates"
    technique = 'property-based testing (Hypothesis) with boundary-form weighted program texts; oracle = Python compile/AST of the output + independent clause splitter + loading into a fresh engine'
    rule = ('program texts assembled from 1-5 items drawn from: generic random programs; numerals 0, 00, 007, 40 digits; '
            'variables named True False None ATOM_NIL __debug__ Arg1 L1 X1 DoBreak CutIf1 __ _x1 V_True ...; clause heads '
            '\'hello world\'(a), \'1\'(b), \'\'(a), a = b, if(a), def(a), non-ASCII / NFKC-unstable names, operators, lists; '
            'bodies that can never succeed (fail, "fail, q", (fail;fail), \\+ true, "q, fail", ...), also for several '
            'predicates and arities in one program; conjunctions of 1-40 goals; control constructs nested to depth 1-12; '
            'operator terms and a/1 in argument position. If the compiler returns text: compile() must succeed; the '
            'module must consist of function definitions only; their names must be exactly {name_arity} of the heads '
            'found by the independent clause splitter, each once; each must be a generator function; loading into a '
            'fresh engine must add exactly those keys to the engine context; each predicate must be callable through '
            'query() without NameError / UnboundLocalError / TypeError. If the compiler raises nothing is asserted. '
            'Non-trivial = accepted program containing a boundary item; distinct = SHA-1 of the text.')
    assumptions = ['CPython 3.12 of /venv', 'independent clause splitter (harness/recog.py)', 'the compiler may refuse programs (too large, unsupported head)']
    cases = {'quick': 3000, 'thorough': 60000}
    genome = {'quick': 400, 'thorough': 400}

    def selftest(self, tier):
        return C10.selftest(C10(), tier)

    def decode(self, src):
        items = []
        kinds = []
        for _ in range(1 + src.n(5)):
            k = src.n(9)
            if k == 0:
                preds, clauses = gen.gen_program(src, CFG)
                items.append(gen.program_text(clauses, src))
                kinds.append('generic')
            elif k == 1:
                items.append('num%d(%s).\n' % (src.n(3), src.pick(NUMERALS)) if src.n(2) else 'n(X) :- X = %s, m(%s).\n' % (src.pick(NUMERALS), src.pick(NUMERALS)))
                kinds.append('numeral')
            elif k == 2:
                v, w = src.pick(VARNAMES), src.pick(VARNAMES)
                items.append(src.pick(['foo(%s) :- bar(%s).\n', 'p(%s, L) :- %s = foo, L = [].\n', 'v(%s, %s).\n', 'w :- q(%s), (r(%s) -> true ; fail).\n',
                                       'u([%s|%s]).\n']).replace('%s', '{0}', 1).replace('%s', '{1}').format(v, w))
                kinds.append('variable-name')
            elif k == 3:
                h = src.pick(HEADS)
                items.append(h + src.pick(['.\n', ' :- true.\n', ' :- q(X), r.\n']))
                kinds.append('head-form')
            elif k == 4:
                name = src.pick(['nv', 'nv(a)', 'nv(X, Y)', 'p(X)', 'q(a)'])
                items.append('%s :- %s.\n' % (name, src.pick(NEVER)))
                if src.n(2):
                    items.append('%s :- %s.\n' % (src.pick(['nv', 'after(X)', 'q(b)']), src.pick(NEVER + ['true', 'r'])))
                kinds.append('never-succeeds')
            elif k == 5:
                n = 1 + src.n(40)
                items.append('long%d(X0) :- %s.\n' % (src.n(2), ', '.join('g(X%d)' % (i % 7) for i in range(n))))
                kinds.append('long-conjunction')
            elif k == 6:
                items.append('deep(X, Y) :- %s.\n' % nest(src, 1 + src.n(12)))
                kinds.append('deep-nesting')
            elif k == 7:
                items.append('ops(%s) :- t(%s).\n' % (src.pick(ARGS), src.pick(ARGS)) if src.n(2) else 'ops(%s).\n' % src.pick(ARGS))
                kinds.append('operator-argument')
            else:
                # the same predicate name at several arities, clauses not adjacent
                items.append('m(a).\nm(a, b).\nk.\nm(c).\nm :- m(X), m(X, Y).\n')
                kinds.append('same-name-several-arities')
        order = list(range(len(items)))
        return {'text': ''.join(items[i] for i in order), 'kinds': kinds}

    def case_key(self, case):
        return case['text']

    def shrink_candidates(self, case):
        lines = case['text'].split('\n')
        for i in range(len(lines)):
            yield dict(case, text='\n'.join(lines[:i] + lines[i + 1:]))

    def decide(self, case):
        text = case['text']
        classes = sorted(set(case.get('kinds', [])))
        try:
            code = impl.compile_text(text)
        except Exception as e:      # noqa
            return OK(False, classes + ['refused(%s)' % type(e).__name__])
        detail = {'text': text}
        if not isinstance(code, str):
            return FAIL('compiler-returned-non-text', detail)
        try:
            compile(code, '<output>', 'exec')
            mod = ast.parse(code)
        except (SyntaxError, ValueError, RecursionError, MemoryError) as e:
            detail['error'] = '%s: %s' % (type(e).__name__, e)
            return FAIL('output-does-not-load:' + type(e).__name__, detail)
        other = [type(n).__name__ for n in mod.body if not isinstance(n, ast.FunctionDef)]
        if other:
            detail['other_statements'] = other
            return FAIL('output-has-non-definitions', detail)
        got = [n.name for n in mod.body]
        try:
            inlang = recog.in_language(text)
        except RecursionError:
            return DISCARD('recogniser recursion limit')
        if not inlang:
            return DISCARD('text outside the grammar was accepted (C10 reports that)')
        exp = expected_defs(text)
        if exp is not None:
            if sorted(got) != exp:
                detail['expected_defs'] = exp
                detail['defs_in_output'] = sorted(got)
                return FAIL('definitions-differ-from-heads', detail)
        elif len(set(got)) != len(got):
            return FAIL('duplicate-definitions', detail)
        # load into a fresh engine
        yp = impl.BudgetYP(3000)
        before = set(yp.eval_context)
        try:
            yp.load_script_from_string(code)
        except Exception as e:      # noqa
            detail['error'] = '%s: %s' % (type(e).__name__, e)
            return FAIL('load-raises:' + type(e).__name__, detail)
        added = sorted(set(yp.eval_context) - before)
        if added != sorted(set(got)):
            detail['keys_added'] = added
            detail['defs_in_output'] = sorted(got)
            return FAIL('engine-keys-differ-from-definitions', detail)
        for name in got:
            f = yp.eval_context[name]
            if not inspect.isgeneratorfunction(f):
                detail['function'] = name
                return FAIL('definition-is-not-a-generator-function', detail)
        if exp is not None:
            clauses, _ = recog.split_clauses(text)
            for pname, arity in sorted({c['head'] for c in clauses if 'head' in c}):
                if pname in yp.eval_blacklist:
                    continue
                args = [yp.variable() for _ in range(arity)]
                yp._n = 0
                yp._budget = 200
                impl.WORK['n'] = 0
                impl.WORK['limit'] = 300000
                g = yp.query(pname, args)
                import sys
                old = sys.getrecursionlimit()
                sys.setrecursionlimit(1200)     # cyclic / huge terms end in RecursionError quickly (ignored here)
                try:
                    n = 0
                    for _ in g:
                        n += 1
                        if n >= (1 if 'generic' in classes else 3):
                            break
                except (NameError, UnboundLocalError, TypeError) as e:
                    detail['predicate'] = '%s/%d' % (pname, arity)
                    detail['error'] = '%s: %s' % (type(e).__name__, e)
                    return FAIL('predicate-not-callable:' + type(e).__name__, detail)
                except (Budget, RecursionError):
                    pass
                except Exception:      # noqa  (e.g. YPException for calling an unbound goal: not C11's business)
                    pass
                finally:
                    sys.setrecursionlimit(old)
                    g.close()
        boundary = [k for k in classes if k != 'generic']
        return OK(bool(boundary), classes + ['accepted'])

    def fuzz_campaign(self, tier, seed):
        """thorough tier: coverage-guided campaign through the same decision function; every failure is re-decided here"""
        from .. import fuzzdrv
        from ..runner import OK
        if tier != 'thorough':
            return []
        info, fails = fuzzdrv.campaign(self.id, seed)
        self.fuzz_info = info
        out = []
        for f in fails:
            case = f['case']
            out.append((case, self.decide(case)))
        return out

    def extra_checks(self, tier, seed):
        return self.fuzz_campaign(tier, seed)


PROP = C11()

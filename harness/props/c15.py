"""C15 - answers are fully dereferenced and stay valid after backtracking."""
from ..terms import tt, show, canon, resolve, term_vars, mklist, NIL, unify as runify
from ..runner import Prop, OK, DISCARD, FAIL
from .. import impl
from . import common as C

ATOMS = [('a', 'a'), ('a', 'b'), ('i', 1), ('a', '[]'), ('i', 0)]


def gtarget(src, depth=0):
    k = src.n(10)
    if depth >= 3 or k < 3:
        return src.pick(ATOMS) if src.n(6) else ('v', 'U%d' % src.n(2))      # mostly ground leaves
    if k < 5:
        return ('f', 'f', (gtarget(src, depth + 1),))
    if k < 7:
        return ('f', 'g', (gtarget(src, depth + 1), gtarget(src, depth + 1)))
    items = [gtarget(src, depth + 1) for _ in range(1 + src.n(3))]
    return mklist(items)


def decompose(src, t, eqs, counter, multi):
    """returns a term (variable or structure) standing for t, appending equations V = structure-with-variables;
    some leaves become calls to a two-solution fact predicate (the second solution is the real leaf)"""
    if t[0] != 'f':
        if t[0] != 'v' and src.n(3) == 0:
            counter[0] += 1
            v = ('v', 'D%d' % counter[0])
            if src.n(3) == 0 and len(multi) < 2:
                multi.append((v, t))
                eqs.append(('multi', v, t))
            else:
                eqs.append(('eq', v, t))
            return v
        return t
    args = tuple(decompose(src, a, eqs, counter, multi) for a in t[2])
    s = ('f', t[1], args)
    if src.n(4) != 0:
        counter[0] += 1
        v = ('v', 'D%d' % counter[0])
        eqs.append(('eq', v, s))
        if src.n(4) == 0:
            counter[0] += 1
            w = ('v', 'D%d' % counter[0])       # chain through another variable
            eqs.append(('eq', w, v))
            return w
        return v
    return s


def image(t):
    """the Python image to_python must give (C16); raises ValueError for partial lists"""
    if t[0] == 'v':
        return None
    if t[0] == 'a':
        return [] if t[1] == '[]' else t[1]
    if t[0] in ('i', 's'):
        return t[1]
    if t[1] == '.' and len(t[2]) == 2:
        tail = image(t[2][1])
        if not isinstance(tail, list) or t[2][1][0] == 'v':
            raise ValueError('partial list')
        return [image(t[2][0])] + tail
    if t[1] == '.':
        raise ValueError("'.' with arity != 2")
    return (t[1], [image(a) for a in t[2]])


def has_partial_list(t):
    try:
        image(t)
        return False
    except ValueError:
        return True


def raw_has_variable(x):
    from yldprolog.engine import Variable, Functor
    stack = [x]
    n = 0
    while stack:
        x = stack.pop()
        n += 1
        if n > 20000:
            return False
        if isinstance(x, Variable):
            return True
        if isinstance(x, Functor):
            stack.extend(x._args)
    return False


class C15(Prop):
    id = 'C15'
    title = 'Answers are fully dereferenced and stay valid after backtracking'
    technique = 'property-based testing (Hypothesis) over binding orders of a term DAG; oracle = reference answers + re-inspection of saved get_value results after the generator moved on'
    rule = ('a target term (depth <= 3, lists, mostly ground) is decomposed into equations V = structure over fresh '
            'variables (with variable-variable chains) and up to two leaves supplied by a two-solution predicate (two facts, or a first clause that binds its argument through a chain of one or two intermediate variables); '
            'Hypothesis draws the ORDER of the equations (outer first / inner later / chains); the clause p(X) :- eqs is '
            'queried directly, through findall/3, and through assert-then-read; an API-level variant opens the same '
            'equations as nested unify generators; a long-list variant builds lists of 20-160 elements through recursive '
            'predicates (copy, append, counting) so that every tail is bound one level later; a big-answer variant (30-1500 elements of a list, or levels of a chain f(e0, f(e1, ...)), bound after the outer structure) asks for the answer through X.get_value() / get_value(X) / to_python(X) / evaluate_bounded with 120-3000 Python frames left: it is delivered completely (no engine variable inside, the same term after the query ended) or not at all (RecursionError, dropped by evaluate_bounded). At each answer reify(get_value(v)) must equal R\'s answer and '
            'to_python(v) the specified Python image; the objects returned by get_value are SAVED, the generator is '
            'advanced or closed, and the saved objects are re-inspected without dereferencing: a ground answer must still '
            'denote the same term and contain no Variable at any depth. Non-trivial = some variable inside a structure '
            'is bound after the structure was bound (outer-before-inner order); distinct = SHA-1 of equations order + mode.')
    assumptions = ['CPython 3.12 of /venv', 'reference interpreter R', 'to_python of partial lists is unspecified (skipped)']
    cases = {'quick': 3000, 'thorough': 50000}
    genome = {'quick': 200, 'thorough': 200}

    def selftest(self, tier):
        return C.oracle_selftest(tier)

    def decode(self, src):
        t = gtarget(src)
        eqs = []
        multi = []
        top = decompose(src, t, eqs, [0], multi)
        X = ('v', 'X')
        eqs.append(('eq', X, top))
        # order: a permutation drawn from the genome
        order = []
        pool = list(range(len(eqs)))
        while pool:
            order.append(pool.pop(src.n(len(pool))))
        eqs = [eqs[i] for i in order]
        mode = src.pick(['direct', 'direct', 'findall', 'assert', 'api', 'long-list', 'big-answer'])
        case = {'eqs': eqs, 'mode': mode, 'close_after': src.n(3), 'multi_form': src.n(3), 'n': src.pick([20, 60, 99, 100, 101, 130, 160])}
        if mode == 'big-answer':
            # an answer whose expansion may need more Python stack than is left when it is asked for
            case.update(n=src.pick([30, 80, 150, 300, 450, 700, 1500]), margin=src.pick([120, 200, 400, 1000, 3000]),
                        route=src.pick(['X.get_value()', 'get_value(X)', 'to_python(X)', 'evaluate_bounded']), shape=src.pick(['list', 'list', 'chain']))
        return case

    def sample_view(self, case):
        return {'equations_in_order': ['%s %s %s' % (show(tt(a)), '=' if k == 'eq' else 'in {z,', show(tt(b)) + ('' if k == 'eq' else '}')) for k, a, b in case['eqs']],
                'mode': case['mode']}

    def shrink_candidates(self, case):
        eqs = case['eqs']
        for i in range(len(eqs)):
            yield dict(case, eqs=eqs[:i] + eqs[i + 1:])
        for i, (k, a, b) in enumerate(eqs):
            if k == 'multi':
                yield dict(case, eqs=eqs[:i] + [['eq', a, b]] + eqs[i + 1:])

    def outer_before_inner(self, eqs):
        """an equation binding V to a structure containing W comes before the equation that binds W"""
        pos = {}
        for i, (k, a, b) in enumerate(eqs):
            pos.setdefault(a, i)
        for i, (k, a, b) in enumerate(eqs):
            for w in term_vars(b, []):
                if w in pos and pos[w] > i and b[0] == 'f':
                    return True
        return False

    def decide(self, case):
        eqs = [(k, tt(a), tt(b)) for k, a, b in case['eqs']]
        mode = case['mode']
        X = ('v', 'X')
        nm = 0
        body = []
        clauses = []
        for k, a, b in eqs:
            if k == 'eq':
                body.append(('call', ('f', '=', (a, b))))
            else:
                nm += 1
                name = 'm%d' % nm
                form = case.get('multi_form', 0)
                if form == 0:
                    clauses.append((('f', name, (('a', 'z'),)), ('true',)))
                else:
                    # the first alternative binds its argument THROUGH one or two intermediate variables (a chain whose
                    # middle links are undone and re-bound when the second alternative is tried)
                    M1, M2, M3 = ('v', 'M1'), ('v', 'M2'), ('v', 'M3')
                    steps = [('call', ('f', '=', (M1, M2))), ('call', ('f', '=', (M2, ('a', 'z'))))] if form == 1 else \
                            [('call', ('f', '=', (M1, M2))), ('call', ('f', '=', (M2, M3))), ('call', ('f', '=', (M3, ('a', 'z'))))]
                    bd = steps[-1]
                    for x in reversed(steps[:-1]):
                        bd = (',', x, bd)
                    clauses.append((('f', name, (M1,)), bd))
                clauses.append((('f', name, (b,)), ('true',)))
                body.append(('call', ('f', name, (a,))))
        b_ = body[-1]
        for x in reversed(body[:-1]):
            b_ = (',', x, b_)
        clauses.append((('f', 'p', (X,)), b_))
        clauses.append((('f', 'all', (('v', 'L'),)), ('call', ('f', 'findall', (X, ('f', 'p', (X,)), ('v', 'L'))))))
        clauses.append((('a', 'st'), (',', ('call', ('f', 'p', (X,))), ('call', ('f', 'assertz', (('f', 'd', (X,)),))))))
        nt = self.outer_before_inner(eqs)
        classes = ['mode:' + mode] + (['outer-bound-before-inner'] if nt else [])
        detail = dict(self.sample_view(case))
        if mode == 'api':
            return self.decide_api(eqs, detail, classes, nt)
        if mode == 'long-list':
            return self.decide_long(case, detail)
        if mode == 'big-answer':
            return self.decide_big(case, detail)
        text = C.plain_text(clauses)
        detail['text'] = text
        comp = C.compile_case(text)
        if comp[0] == 'exc' and 'GeneratedCodeError' in comp[1]:
            return DISCARD('clause too large for Python (the compiler says so, allowed by C11)')
        if comp[0] == 'exc':
            return FAIL(comp[1], dict(detail, error=comp[2]))
        q = {'direct': ('f', 'p', (('v', 'Q'),)), 'findall': ('f', 'all', (('v', 'Q'),)), 'assert': ('f', 'd', (('v', 'Q'),))}[mode]
        setup = None
        if mode == 'assert':
            def setup(it):
                for _ in it.call(('a', 'st'), {}, 0):
                    pass
        st, ref, it = C.run_ref(clauses, q, setup=setup)
        if st != 'done':
            return DISCARD('reference: ' + st)
        if 'findall-nonground-instance' in it.events:
            return DISCARD('findall collects a non-ground instance (unspecified)')
        try:
            yp = impl.BudgetYP(10 * it.steps + 500)
            yp.load_script_from_string(comp[1])
            if mode == 'assert':
                for _ in yp.query('st', []):
                    pass
            Q = yp.variable()
            saved = []
            g = yp.query(q[1], [Q])
            k = 0
            for _ in g:
                if k >= len(ref):
                    return FAIL('extra-answer', detail)
                exp = ref[k][2][0]
                val = impl.get_value(Q)
                got = impl.reify(val, {})
                if got != canon(exp):
                    return FAIL('answer-differs', dict(detail, expected=show(exp), observed=show(got)))
                if not has_partial_list(exp):
                    py = impl.to_python(Q)
                    if py != image(exp):
                        return FAIL('to_python-differs', dict(detail, expected=repr(image(exp)), observed=repr(py)))
                saved.append((val, exp))
                k += 1
                if case.get('close_after') == 1 and k == 1:
                    g.close()
                    break
            else:
                if k != len(ref):
                    return FAIL('missing-answer', dict(detail, expected=[show(a) for a in ref]))
            # the query has backtracked / finished: the saved values must still denote the same terms
            for val, exp in saved:
                ground = not term_vars(exp, [])
                if ground:
                    if raw_has_variable(val):
                        return FAIL('saved-ground-answer-contains-variable', dict(detail, answer=show(exp), saved_now=show(impl.reify(val, {}))))
                    now = impl.reify_raw(val, {})
                    if now != exp:
                        return FAIL('saved-answer-changed', dict(detail, answer=show(exp), saved_now=repr(now)))
                    classes.append('ground-answer-rechecked-after-backtracking')
        except impl.ImplWork:
            return DISCARD('term-copying work budget')
        except impl.ImplBudget:
            return FAIL('impl-does-not-terminate', detail)
        except RecursionError:
            return FAIL('exception:RecursionError', detail)
        except Exception as e:      # noqa
            return FAIL('exception:' + impl.exc_signature(e), dict(detail, error='%s: %s' % (type(e).__name__, e)))
        return OK(nt, sorted(set(classes)))

    def decide_long(self, case, detail):
        """a long list built by a recursive predicate (every tail is the next level's variable, bound later): the
        collected value must stay a complete, variable-free list after the query has finished"""
        n = case.get('n', 100)
        text = ('cp([], []).\ncp([H|T], [H|T2]) :- cp(T, T2).\napp([], L, L).\napp([H|T], L, [H|R]) :- app(T, L, R).\n'
                'mk(z, []).\nmk(s(N), [k|T]) :- mk(N, T).\n')
        comp = C.compile_case(text)
        if comp[0] == 'exc':
            return FAIL(comp[1], dict(detail, error=comp[2]))
        items = [('i', i % 7) for i in range(n)]
        lst = mklist(items)
        form = case.get('multi_form', 0)
        try:
            yp = impl.BudgetYP(20 * n + 500)
            yp.load_script_from_string(comp[1])
            X = yp.variable()
            if form == 0:
                g = yp.query('cp', [impl.to_engine(yp, lst, {}), X])
                exp = lst
            elif form == 1:
                g = yp.query('app', [impl.to_engine(yp, mklist(items[:n // 2]), {}), impl.to_engine(yp, mklist(items[n // 2:]), {}), X])
                exp = lst
            else:
                pe = ('a', 'z')
                for _ in range(n):
                    pe = ('f', 's', (pe,))
                g = yp.query('mk', [impl.to_engine(yp, pe, {}), X])
                exp = mklist([('a', 'k')] * n)
            saved = []
            for _ in g:
                val = impl.get_value(X)
                if impl.flat([val]) != impl.flat_ref([exp]):
                    return FAIL('long-list:answer-differs', dict(detail, n=n))
                saved.append(val)
            if len(saved) != 1:
                return FAIL('long-list:%d-answers' % len(saved), dict(detail, n=n))
            # after the query has finished
            stack = [saved[0]]
            while stack:
                x = stack.pop()
                if isinstance(x, impl.Variable):
                    return FAIL('saved-ground-answer-contains-variable', dict(detail, n=n, note='long list built by recursion, form %d' % form))
                if isinstance(x, impl.Functor):
                    stack.extend(x._args)
            if impl.flat([saved[0]]) != impl.flat_ref([exp]):
                return FAIL('saved-answer-changed', dict(detail, n=n))
        except impl.ImplWork:
            return DISCARD('term-copying work budget')
        except impl.ImplBudget:
            return FAIL('impl-does-not-terminate', detail)
        except RecursionError:
            return FAIL('exception:RecursionError', dict(detail, n=n))
        return OK(True, ['mode:long-list', 'length:%d' % n, 'ground-answer-rechecked-after-backtracking'])

    def decide_big(self, case, detail):
        """an answer of n elements (a list whose elements, or a chain f(f(...)) whose levels, are bound AFTER the outer
        structure) is asked for with `margin` Python frames left: it is delivered completely - no engine variable inside,
        the same term after the query has ended - or not at all (RecursionError; evaluate_bounded drops it)"""
        import sys
        from yldprolog.engine import unify
        n, margin, route, shape = case['n'], case['margin'], case['route'], case['shape']
        detail = dict(detail, n=n, frames_left=margin, route=route, shape=shape)
        detail.pop('equations_in_order', None)
        yp = impl.YP()
        X = yp.variable()
        names = ['e%d' % i for i in range(n)]
        if shape == 'list':
            elems = [yp.variable() for _ in range(n)]
            pairs = [(X, yp.makelist(elems)), (yp.functor('t', elems), yp.functor('t', [yp.atom(s) for s in names]))]
        else:
            vs = [X] + [yp.variable() for _ in range(n)]
            pairs = [(vs[i], yp.functor('f', [yp.atom(names[i]), vs[i + 1]])) for i in range(n)] + [(vs[n], yp.atom('end'))]

        def solutions():
            def level(i):
                if i == len(pairs):
                    yield False
                    return
                for _ in unify(*pairs[i]):
                    yield from level(i + 1)
            if shape == 'list':
                yield from level(0)
            else:
                # the chain's links are opened one after the other without recursion (n generators held in a list)
                open_ = []
                try:
                    for a, b in pairs:
                        g = iter(unify(a, b))
                        next(g)
                        open_.append(g)
                    yield False
                finally:
                    for g in reversed(open_):
                        g.close()

        def depth():
            f, d = sys._getframe(), 0
            while f is not None:
                f, d = f.f_back, d + 1
            return d
        project = {'X.get_value()': lambda: X.get_value(), 'get_value(X)': lambda: impl.get_value(X), 'to_python(X)': lambda: impl.to_python(X),
                   'evaluate_bounded': lambda: X.get_value()}[route]
        old = sys.getrecursionlimit()
        answers = []
        refused = False
        q = solutions()
        try:
            if route == 'evaluate_bounded':
                answers = yp.evaluate_bounded(q, lambda _: project(), recursion_limit=depth() + margin)
            else:
                for _ in q:
                    sys.setrecursionlimit(depth() + margin)
                    try:
                        answers.append(project())
                    finally:
                        sys.setrecursionlimit(old)
        except RecursionError:
            refused = True
        except Exception as e:      # noqa
            sys.setrecursionlimit(old)
            return FAIL('big-answer:exception:' + impl.exc_signature(e), dict(detail, error='%s: %s' % (type(e).__name__, str(e)[:200])))
        finally:
            sys.setrecursionlimit(old)
            q.close()
        if len(answers) > 1:
            return FAIL('big-answer:%d-answers' % len(answers), detail)
        for a in answers:
            if route == 'to_python(X)':
                want = names if shape == 'list' else None
                if shape == 'list' and a != want:
                    bad = [i for i, (g, w) in enumerate(zip(a, want)) if g != w] if isinstance(a, list) else []
                    return FAIL('big-answer:to_python-incomplete', dict(detail, wrong_elements=len(bad), first_wrong=bad[:1], example=repr(a[bad[0]]) if bad else repr(a)[:80]))
                continue
            # iterative walk over the raw structure, no dereferencing: after the query ended
            got, stack, nvars = [], [a], 0
            while stack:
                x = stack.pop()
                if isinstance(x, impl.Variable):
                    nvars += 1
                elif isinstance(x, impl.Functor):
                    stack.extend(reversed(x._args))
                elif hasattr(x, 'name'):
                    got.append(x.name())
            if nvars:
                return FAIL('big-answer:delivered-answer-contains-variables', dict(detail, variables=nvars))
            want = [s for s in names] + (['[]'] if shape == 'list' else ['end'])
            if got != want:
                return FAIL('big-answer:delivered-answer-changed-after-the-query', dict(detail, atoms_found=len(got)))
        if impl.to_python(X) is not None:
            return FAIL('big-answer:query-variable-still-bound', detail)
        cls = 'refused(RecursionError)' if refused else ('delivered' if answers else 'dropped-by-evaluate_bounded')
        return OK(True, ['mode:big-answer', 'big-answer:' + cls, 'route:' + route, 'shape:' + shape])

    def decide_api(self, eqs, detail, classes, nt):
        from yldprolog.engine import unify
        from ..terms import sto
        # reference: the second solution of 'multi' leaves (the real leaf)
        s = {}
        for k, a, b in eqs:
            if sto(a, b, s):
                return DISCARD('STO')
            s = runify(a, b, s, check_sto=False)
            if s is None:
                return DISCARD('equations inconsistent')
        X = ('v', 'X')
        exp = canon(resolve(X, s))
        yp = impl.YP()
        vmap = {}
        gens = []
        try:
            for k, a, b in eqs:
                g = iter(unify(impl.to_engine(yp, a, vmap), impl.to_engine(yp, b, vmap)))
                try:
                    next(g)
                except StopIteration:
                    return FAIL('api:unify-fails', detail)
                gens.append(g)
            ex = impl.to_engine(yp, X, vmap)
            val = impl.get_value(ex)
            got = impl.reify(val, {})
            if got != exp:
                return FAIL('api:value-differs', dict(detail, expected=show(exp), observed=show(got)))
            if not has_partial_list(exp):
                py = impl.to_python(ex)
                if py != image(exp):
                    return FAIL('api:to_python-differs', dict(detail, expected=repr(image(exp)), observed=repr(py)))
            # to_python / get_value applied directly to the STRUCTURES of the equations (not through a variable)
            for k, a, b in eqs:
                if b[0] != 'f':
                    continue
                eb = impl.to_engine(yp, b, vmap)
                want = canon(resolve(b, s))
                if impl.reify(impl.get_value(eb), {}) != want:
                    return FAIL('api:get_value-of-structure-differs', dict(detail, structure=show(b)))
                if not has_partial_list(want) and impl.to_python(eb) != image(want):
                    return FAIL('api:to_python-of-structure-differs', dict(detail, structure=show(b), expected=repr(image(want)), observed=repr(impl.to_python(eb))))
        except RecursionError:
            return FAIL('exception:RecursionError', detail)
        finally:
            for g in reversed(gens):
                g.close()
        if not term_vars(exp, []):
            if raw_has_variable(val):
                return FAIL('api:saved-ground-value-contains-variable', dict(detail, value=show(exp)))
            if impl.reify_raw(val, {}) != exp:
                return FAIL('api:saved-value-changed', dict(detail, value=show(exp)))
            classes.append('ground-answer-rechecked-after-backtracking')
        return OK(nt, sorted(set(classes)))


PROP = C15()

"""C16 - source literals and Python values denote the same terms."""
import re
import zlib
from ..terms import tt, show, canon, term_vars, mklist, NIL, term_depth
from ..runner import Prop, OK, DISCARD, FAIL
from .. import impl
from . import common as C
from .c15 import image, has_partial_list

PALETTE = ['a', 'b', 'Z', '0', '_', ' ', '\n', '\t', '\r', "'", '"', '.', ',', '(', ')', '[', ']', '|', '%', ':', '-', '!', ';', '=', '#', '$',
           '{', '}', 'é', 'ß', 'λ', '中', '☃', ' ', '\x85', '\x0c', '\x0b', '\x00', '\x1b', '\xa0', '​', '﻿', '\U0001f600', '\U00010348', '/', '*', '+', '<', '>', '~', '`', '^', '&', '?', '@']
_PLAIN = re.compile(r'[a-z][A-Za-z0-9_]*\Z')


def gname(src):
    k = src.n(10)
    if k == 9:
        # atoms that span several lines, some of them holding nothing but blanks or tabs, some indented alike
        lines = [src.pick(['first', '  second', '   ', '\t', '', '    x y', ' ', '  é']) for _ in range(2 + src.n(4))]
        return '\n'.join(lines)
    if k == 8:
        # long atoms (90-230 characters) with characters that the code generator has to escape at varying offsets
        n = 90 + src.n(140)
        pad = src.pick(['A', 'ab', 'x y', 'é'])
        body = (pad * (n // len(pad) + 1))[:n]
        out = []
        for i, ch in enumerate(body):
            out.append(src.pick(['\n', '\t', "'", '"', '\r', '\x00', '☃']) if src.rare(1, 24) else ch)
        return ''.join(out) + src.pick(['', '\n', 'tail', '"'])
    if k < 3:
        return src.pick(['a', 'b', 'foo', 'x1', 'aB_c', 'nil', 'truex', 'failure', 'e'])
    n = src.n(7)
    chars = []
    for _ in range(n):
        j = src.n(6)
        if j == 5:
            cp = src.n(0x2fff) + 1
            ch = chr(cp)
            if ch == '\\' or 0xD800 <= cp <= 0xDFFF:
                ch = 'x'
            chars.append(ch)
        else:
            chars.append(src.pick(PALETTE))
    return ''.join(chars)


def glit(src, depth=0):
    k = src.n(14)
    if depth >= 4 or k < 4:
        return ('a', gname(src))
    if k < 6:
        return ('i', src.pick([0, 1, 7, 42, 10 ** 9, 2 ** 64, 10 ** 30, 123456789012345678901234567890]))
    if k == 6:
        src.anon = getattr(src, 'anon', 0) + 1
        return ('v', '_%d' % src.anon)
    if k < 10:
        n = 1 + src.n(3)
        if src.n(8) == 7:
            n = 0           # foo(): a compound term without arguments, not the atom foo
        return ('f', gname(src), tuple(glit(src, depth + 1) for _ in range(n)))
    if depth == 0 and src.rare(1, 50):
        # a table written out as one list literal: 150-400 elements
        n = 150 + src.n(251)
        return mklist([('a', 'k%d' % (i % 7)) if i % 3 else ('i', i) for i in range(n)])
    items = [glit(src, depth + 1) for _ in range(src.n(4))]
    if items and src.n(4) == 3:
        return mklist(items, ('v', src.pick(['T0', 'T1', 'U_1', 'U_2', 'U_3', 'UATOM_NIL', 'UTrue'])))        # [H|T] pattern
    return mklist(items)


def atom_src(name, src):
    if name == '[]' and (src is None or src.n(2)):
        return '[]'
    if _PLAIN.match(name) and name not in ('true', 'fail') and (src is None or src.n(3)):
        return name
    return "'" + name.replace("'", "\\'") + "'"


def lit_src(t, src, names):
    if t[0] == 'v':
        if t[1].startswith('_'):
            return '_'
        return names.setdefault(t, t[1][1:] if t[1].startswith('U') else 'V%s' % t[1])      # U_1 is the named variable _1
    if t[0] == 'a':
        return atom_src(t[1], src)
    if t[0] == 'i':
        return ('0' * src.n(3) if src is not None and src.n(4) == 3 else '') + str(t[1])     # any numeral spelling
    if t[1] == '.' and len(t[2]) == 2:
        items = []
        cur = t
        while cur[0] == 'f' and cur[1] == '.' and len(cur[2]) == 2:
            items.append(cur[2][0])
            cur = cur[2][1]
        if cur == NIL:
            return '[' + ', '.join(lit_src(x, src, names) for x in items) + ']'
        if cur[0] == 'v' and not cur[1].startswith('_'):   # (anonymous variables have ids _N and print as _)
            return '[' + ','.join(lit_src(x, src, names) for x in items) + ' | ' + lit_src(cur, src, names) + ']'
    name = atom_src(t[1], src)
    if name == '[]':
        name = "'[]'"
    return name + '(' + ', '.join(lit_src(a, src, names) for a in t[2]) + ')'


def api_build(yp, t, vmap, style, shared=None):
    """the same term built through the Python API; with `shared` (a dict) equal compound sub-terms are ONE object used in
    several places, as in pt = yp.functor('pt', [1, 2]); yp.functor('seg', [pt, pt])"""
    if shared is not None and t[0] == 'f':
        if t not in shared:
            shared[t] = _api_build(yp, t, vmap, style, shared)
        return shared[t]
    return _api_build(yp, t, vmap, style, shared)


def _api_build(yp, t, vmap, style, shared):
    if t[0] == 'v':
        return vmap.setdefault(t, yp.variable())
    if t[0] == 'a':
        return yp.ATOM_NIL if (t[1] == '[]' and style % 2) else yp.atom(t[1])
    if t[0] == 'i':
        return t[1]
    args = [api_build(yp, a, vmap, style, shared) for a in t[2]]
    if t[1] == '.' and len(args) == 2:
        # proper list -> makelist, else listpair
        items = []
        cur = t
        while cur[0] == 'f' and cur[1] == '.' and len(cur[2]) == 2:
            items.append(cur[2][0])
            cur = cur[2][1]
        if cur == NIL and style % 3 == 0:
            return yp.makelist([api_build(yp, x, vmap, style, shared) for x in items])
        return yp.listpair(args[0], args[1])
    if style % 2 == 0:
        if len(args) == 1:
            return yp.functor1(t[1], args[0])
        if len(args) == 2:
            return yp.functor2(t[1], args[0], args[1])
        if len(args) == 3:
            return yp.functor3(t[1], args[0], args[1], args[2])
    return yp.functor(t[1], args)


def scribble(py):
    """appends to every list inside a to_python result (what a caller may do with a value it was given)"""
    if isinstance(py, list):
        for x in list(py):
            scribble(x)
        py.append('scribbled')
    elif isinstance(py, tuple):
        for x in py:
            scribble(x)


def one_off(src_n, t):
    """variants of t that differ in exactly one leaf (must not unify with a ground t)"""
    out = []

    def rec(t, path):
        if t[0] == 'f':
            for i, a in enumerate(t[2]):
                rec(a, path + (i,))
            out.append((path, ('a', 'zz_other')))
        elif t[0] in ('a', 'i'):
            out.append((path, ('a', t[1] + '_') if t[0] == 'a' else ('i', t[1] + 1)))
    rec(t, ())

    def put(t, path, new):
        if not path:
            return new
        return ('f', t[1], t[2][:path[0]] + (put(t[2][path[0]], path[1:], new),) + t[2][path[0] + 1:])
    return [put(t, p, n) for p, n in out[:12]]


class C16(Prop):
    id = 'C16'
    title = 'Source literals and Python values denote the same terms'
    technique = 'round-trip property-based testing (Hypothesis): literal AST -> source text -> compiler -> engine term -> reification / to_python, and API-built terms vs. compiled literals'
    rule = ('a literal term AST (atoms unquoted or quoted with generated backslash-free Unicode text: letters, digits, '
            'blanks, newlines and other line separators, NUL, quote written backslash-quote, double quote, punctuation, '
            'non-BMP, atoms spanning several lines some of which hold only blanks or tabs; list literals of 150-400 elements (one case in fifty); integers up to 10^30, also spelled with leading zeros; compounds nested <= 4 with arbitrary functor names; proper lists; [H|T] '
            'patterns; _) is printed to source and placed in fact, head-with-body, body (X = LIT) and query position, or in a fact of a source FILE compiled with compile_prolog_from_file. '
            'Round trip: the reification of X after p(X) equals the AST (up to renaming of variables; each _ distinct); '
            'to_python(X) equals the specified image (atom -> name, int -> int, proper list -> list, [] -> [], compound '
            '-> (name, [args]), unbound -> None); the same term built with atom / functor / functor1-3 / listpair / '
            'makelist / ATOM_NIL unifies with the compiled literal and, when ground, a term that differs in exactly one '
            'position does not; atom(n) is atom(n) within an engine, is not the atom of another engine, yet they unify. '
            'Non-trivial = the literal contains a quoted atom with a character outside [A-Za-z0-9_ ], or a list-pair '
            'pattern, or nesting >= 3; distinct = SHA-1 of the literal source + position.')
    assumptions = ['CPython 3.12 of /venv', 'backslashes other than backslash-quote are outside the property and not generated', 'f() with an empty argument list is not generated']
    cases = {'quick': 4000, 'thorough': 80000}
    genome = {'quick': 160, 'thorough': 160}

    def decode(self, src):
        t = glit(src)
        k = src.n(8)
        dup_ok = t[0] == 'f' and not term_vars(t, [])      # `_` written twice would be two variables
        if k == 6 and dup_ok:
            t = ('f', 'seg', (t, t))                    # the same sub-term twice (API: one object used in two places)
        elif k == 7 and dup_ok:
            t = mklist([t, ('a', 'sep'), t])
        names = {}
        text = lit_src(t, src, names)
        case = {'lit': t, 'src': text, 'position': src.pick(['fact', 'head', 'body', 'query', 'file']), 'style': src.n(6)}
        if t[0] == 'f' and src.n(3) == 0:
            # an earlier clause of the same text holds a literal that PRINTS like this one but is another term: a variable
            # replaced by the quoted atom of its name, or an argument list / sub-term replaced by one quoted atom
            def alike(u, top=False):
                if u[0] == 'v' and u in names:
                    return ('a', names[u])
                if u[0] == 'f' and not top and u[1] != '.' and src.n(3) == 0:
                    return ('a', '%s(%s)' % (u[1], ','.join(lit_src(a, None, dict(names)) for a in u[2])))
                if u[0] == 'f':
                    if top and len(u[2]) >= 2 and src.n(4) == 0:
                        return ('f', u[1], (('a', ','.join(lit_src(a, None, dict(names)) for a in u[2])),))
                    return ('f', u[1], tuple(alike(a) for a in u[2]))
                return u
            d = alike(t, True)
            if d != t:
                case['decoy'] = 'zz(%s).\n' % lit_src(d, None, dict(names))
        return case

    def sample_view(self, case):
        return {'literal_source': case['src'], 'position': case['position']}

    def case_key(self, case):
        return case['src'] + '\x00' + case['position'] + (case.get('decoy') or '')

    def shrink_candidates(self, case):
        t = tt(case['lit'])
        for t2 in C._smaller_terms(t, top=False):
            yield dict(case, lit=t2, src=lit_src(t2, None, {}))
        if t[0] == 'a' and len(t[1]) > 1:
            for i in range(len(t[1])):
                t2 = ('a', t[1][:i] + t[1][i + 1:])
                yield dict(case, lit=t2, src=lit_src(t2, None, {}))

    def decide(self, case):
        t = tt(case['lit'])
        s = case['src']
        pos = case['position']
        if pos == 'fact':
            text = 'p(%s).\n' % s
        elif pos == 'head':
            text = 'p(%s) :- true.\n' % s
        elif pos == 'body':
            text = 'p(X) :- X = %s.\n' % s
        else:
            text = 'p(%s).\nq(X) :- p(X).\n' % s
        text = (case.get('decoy') or '') + text
        detail = {'text': text, 'literal': show(t) if len(repr(t)) < 400 else repr(t)[:400]}
        if pos == 'file':
            # the same source read from a file by the library's file entry point
            import tempfile
            import os
            fd, path = tempfile.mkstemp(prefix='verif-c16-', suffix='.prolog')
            try:
                with os.fdopen(fd, 'w', encoding='utf8', newline='') as f:
                    f.write(text)
                try:
                    code = impl.compiler.compile_prolog_from_file(path, impl.Ctx)
                    comp = ('ok', code)
                except Exception as e:      # noqa
                    comp = ('exc', 'compile_prolog_from_file:' + impl.exc_signature(e), '%s: %s' % (type(e).__name__, str(e)[:300]))
            finally:
                os.unlink(path)
        else:
            comp = C.compile_case(text)
        if comp[0] == 'exc':
            if 'GeneratedCodeError' in comp[1] and term_depth(t) > 30:
                return DISCARD('too deeply nested for Python (compiler says so)')
            return FAIL(comp[1], dict(detail, error=comp[2]))
        exp = canon(t)
        try:
            yp = impl.YP()
            yp.load_script_from_string(comp[1])
            X = yp.variable()
            n = 0
            for _ in yp.query('q' if pos == 'query' else 'p', [X]):
                n += 1
                got = impl.reify(X, {})
                if got != exp:
                    return FAIL('literal-denotes-another-term', dict(detail, expected=repr(exp)[:300], observed=repr(got)[:300]))
                if not has_partial_list(exp):
                    py = impl.to_python(X)
                    if py != image(exp):
                        return FAIL('to_python-differs', dict(detail, expected=repr(image(exp))[:300], observed=repr(py)[:300]))
                    if isinstance(py, list) and exp == NIL and py != []:
                        return FAIL('to_python-differs', detail)
                    # the result belongs to the caller: changing it in place must not show in any later conversion
                    scribble(py)
                    py2 = impl.to_python(X)
                    if py2 != image(exp) or impl.to_python(yp.makelist([])) != [] or impl.to_python(yp.ATOM_NIL) != []:
                        return FAIL('to_python-result-shares-state-with-later-results', dict(detail, expected=repr(image(exp))[:300], observed=repr(py2)[:300],
                                                                                             empty_list_now=repr(impl.to_python(yp.ATOM_NIL))[:100]))
            if n != 1:
                return FAIL('literal-fact-has-%d-answers' % n, detail)
            if impl.to_python(X) is not None:
                return FAIL('to_python-of-unbound-variable', detail)
            # API-built term unifies with the compiled literal
            vmap = {}
            api = api_build(yp, t, vmap, case.get('style', 0))
            n = sum(1 for _ in yp.query('p', [api]))
            if n != 1:
                return FAIL('api-built-term-does-not-match-literal', dict(detail, answers=n))
            ground = not term_vars(t, [])
            if ground and not has_partial_list(exp):
                # built directly (never unified with anything), equal sub-terms shared as one object or not
                for sh in (None, {}):
                    direct = api_build(yp, t, {}, case.get('style', 0), sh)
                    try:
                        py = impl.to_python(direct)
                    except Exception as e:      # noqa
                        return FAIL('to_python-of-api-term-raises:' + type(e).__name__, dict(detail, error=str(e)[:200], sub_terms_shared=sh is not None))
                    if py != image(exp):
                        return FAIL('to_python-of-api-term-differs', dict(detail, expected=repr(image(exp))[:300], observed=repr(py)[:300], sub_terms_shared=sh is not None))
                    if impl.reify(direct, {}) != exp:
                        return FAIL('api-term-reads-back-differently', dict(detail, sub_terms_shared=sh is not None))
                    if sh is not None and sum(1 for _ in yp.query('p', [direct])) != 1:
                        return FAIL('api-built-term-does-not-match-literal', dict(detail, sub_terms_shared=True))
            if ground:
                # a pattern: the literal with sub-terms (also list tails) replaced by variables, built through the
                # API, matched against the compiled literal; read back while the answer is current
                for k in range(3):
                    cnt = [0]
                    pat = self.pattern(t, case.get('style', 0) + k, cnt)
                    if not cnt[0]:
                        continue
                    pe = api_build(yp, pat, {}, case.get('style', 0) + k)
                    m = 0
                    for _ in yp.query('p', [pe]):
                        m += 1
                        if impl.reify(pe, {}) != exp:
                            return FAIL('pattern-not-instantiated-to-literal', dict(detail, pattern=repr(pat)[:300]))
                        if not has_partial_list(exp) and impl.to_python(pe) != image(exp):
                            return FAIL('to_python-of-api-term-differs', dict(detail, pattern=repr(pat)[:300], expected=repr(image(exp))[:300], observed=repr(impl.to_python(pe))[:300]))
                    if m != 1:
                        return FAIL('pattern-does-not-match-literal', dict(detail, pattern=repr(pat)[:300], answers=m))
                for other in one_off(0, t):
                    o = api_build(yp, other, {}, case.get('style', 0))
                    if sum(1 for _ in yp.query('p', [o])) != 0:
                        return FAIL('different-term-matches-literal', dict(detail, other=repr(other)[:300]))
            # atoms: one object per engine, distinct across engines, yet they unify
            yp2 = impl.YP()
            for a in self.atoms_of(t)[:4]:
                first = yp.atom(a)
                if first is not yp.atom(a):
                    return FAIL('atom-not-interned', dict(detail, atom=a))
                if case.get('style', 0) == 5:
                    # ... however many other names the engine is asked for in between
                    for i in range(300):
                        yp.atom('filler%d' % i)
                    if yp.atom(a) is not first:
                        return FAIL('atom-not-interned', dict(detail, atom=a, after='300 other atom names'))
                if yp.atom(a) is yp2.atom(a):
                    return FAIL('atom-shared-between-engines', dict(detail, atom=a))
                if sum(1 for _ in impl.engine.unify(yp.atom(a), yp2.atom(a))) != 1:
                    return FAIL('atoms-of-two-engines-do-not-unify', dict(detail, atom=a))
            api2 = api_build(yp2, t, {}, case.get('style', 0) + 1)
            if sum(1 for _ in yp.query('p', [api2])) != 1:
                return FAIL('term-of-another-engine-does-not-match-literal', detail)
        except RecursionError:
            return FAIL('exception:RecursionError', detail)
        except Exception as e:      # noqa
            return FAIL('exception:' + impl.exc_signature(e), dict(detail, error='%s: %s' % (type(e).__name__, e)))
        odd = any(re.search(r'[^A-Za-z0-9_ ]', a) for a in self.atoms_of(t) if a != '[]')
        pattern = has_partial_list(exp)
        nt = odd or pattern or term_depth(t) >= 3
        classes = ['position:' + pos]
        if odd:
            classes.append('quoted-atom-with-special-characters')
        if pattern:
            classes.append('list-pair-pattern')
        if term_depth(t) >= 3:
            classes.append('nesting>=3')
        if any(v[1].startswith('_') for v in term_vars(t, [])):
            classes.append('anonymous-variable')
        return OK(nt, classes)

    def pattern(self, t, salt, cnt, path=0):
        """t with some sub-terms replaced by fresh variables (deterministic in salt)"""
        h = (zlib.crc32(repr(t).encode("utf8", "backslashreplace")) + salt * 7919 + path * 31) % 5
        if t[0] == 'f':
            if h == 0:
                cnt[0] += 1
                return ('v', 'P%d' % cnt[0])
            return ('f', t[1], tuple(self.pattern(a, salt, cnt, path * 3 + i + 1) for i, a in enumerate(t[2])))
        if h in (0, 1):
            cnt[0] += 1
            return ('v', 'P%d' % cnt[0])
        return t

    def atoms_of(self, t):
        out = []

        def rec(t):
            if t[0] == 'a':
                out.append(t[1])
            elif t[0] == 'f':
                out.append(t[1])
                for a in t[2]:
                    rec(a)
        rec(t)
        return out


PROP = C16()

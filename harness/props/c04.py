"""C04 - engine instances are isolated; interleaved queries do not interfere."""
import threading
import sys
from ..terms import tt, show
from ..runner import OK, DISCARD, FAIL
from .. import gen
from .. import impl
from .. import history as H
from .hist import HistoryProp
from .c07 import gfact, CONSTS

ENG = ['e0', 'e1', 'e2']
CFG = gen.with_cfg(control=frozenset(['cut', ';', 'ite', 'not']), library=False, min_clauses=2, max_clauses=5, max_body=3,
                   preds=[('p', 1), ('p', 2), ('q', 1), ('r', 0), ('r', 1)], undefined_calls=False, odd=False)
ROWSETS = [[[('a', 'a')], [('a', 'b')]], [[('i', 1)]], [[('a', 'c')], [('a', 'a')], [('v', 'F')]]]


def inst(src, t):
    if t[0] == 'v':
        return src.pick(CONSTS[:3]) if src.n(4) else ('v', 'Q9')
    if t[0] == 'f':
        return ('f', t[1], tuple(inst(src, a) for a in t[2]))
    return t


class C04(HistoryProp):
    id = 'C04'
    title = 'Engine instances are isolated; interleaved queries do not interfere'
    technique = 'model-based (stateful) property testing with harness-owned schedules: histories over 2-3 engines vs. independent reference models + projection differential (each engine alone); sampled thread schedules'
    rule = ('histories of 10-40 operations over 2-3 engines: load a generated script (overwrite on/off; the SAME script '
            'text is often loaded into several engines; in one case in four all engines load from ONE file path through load_script_from_file, the file rewritten before each load), assert_fact, retract/retractall via query, register a Python '
            'predicate, clear, create atoms, open a query, step a chosen open query (next), close a chosen open query - '
            'the rule sequence IS the interleaving; one case in three starts with compiled facts that hold `_` inside structures and two uses of one such fact opened side by side. Additionally, per run: 60 (thorough 1500) histories with one THREAD per engine in lock step (an operation that only finishes once a suspended query of another engine is closed is a violation) and 4 (40) cases of 2-3 engines each holding a search suspended 60-330 levels deep, advanced in a generated interleaving, against each engine alone. Oracles: (1) every observation equals that of independent reference '
            'models (one R per engine); (2) projection: the operations of each single engine replayed on a fresh '
            'engine that is alone give the same observations; (3) atoms are one object per engine and never shared '
            'between engines; (4) thread tier: per-engine histories on 2-4 threads (sys.setswitchinterval(1e-6), '
            'barrier start) equal their solo runs. Non-trivial = >= 2 engines each with >= 1 mutation, and >= 2 queries '
            'suspended at the same time with a mutation of ANOTHER engine in between; distinct = SHA-1 of the history.')
    assumptions = ['CPython 3.12 of /venv', 'thread schedules are sampled, not controlled (the deterministic step interleaving is what carries the claim); evaluate_bounded is excluded from multi-thread runs as the property says',
                   'reference R per engine']
    cases = {'quick': 1200, 'thorough': 25000}
    genome = {'quick': 500, 'thorough': 600}
    ref_steps = 1500
    skip_undecided = True

    def decode(self, src):
        ne = 2 + src.n(2)
        engines = ENG[:ne]
        ops = [['engine', e] for e in engines]
        scripts = []
        for _ in range(1 + src.n(3)):
            preds, clauses = gen.gen_program(src, CFG)
            scripts.append((preds, clauses))
        nested_anon = src.n(3) == 0
        if nested_anon:
            # compiled FACTS with anonymous variables inside structures: every use of such a fact has variables of its own,
            # also when two uses are suspended at the same time
            scripts.append(([('p', 1), ('q', 1)],
                            [(('f', 'p', (('f', 'f', (('v', '_901'),)),)), ('true',)), (('f', 'p', (('f', '.', (('v', '_902'), ('v', '_903'))),)), ('true',)),
                             (('f', 'q', (('f', 'f', (('v', '_904'),)),)), ('true',)), (('f', 'p', (('f', 'f', (('a', 'c'),)),)), ('true',))]))
        open_q = []       # (qid, engine)
        qid = 0
        known = {e: [] for e in engines}      # predicates known per engine (for queries)
        if nested_anon:
            # ... loaded at once, with two uses of the same fact opened side by side (different values at the place of `_`)
            e = src.pick(engines)
            ops.append(['load', e, scripts[-1][1], True, 'ok'])
            known[e] = list(scripts[-1][0])
            for val in (('a', 'a'), ('a', 'b')):
                qid += 1
                ops.append(['open', e, qid, ('f', 'p', (('f', 'f', (val,)),))])
                ops.append(['step', qid])
                open_q.append((qid, e))
        ngfacts = {e: [] for e in engines}    # non-ground facts asserted per engine
        for _ in range(8 + src.n(30)):
            e = src.pick(engines)
            k = src.n(14)
            if k < 2:
                preds, clauses = src.pick(scripts)
                ops.append(['load', e, clauses, src.n(3) != 2, 'ok'])
                known[e] = list(dict.fromkeys(known[e] + preds))
            elif k < 4:
                f = gfact(src, src.pick([('p', 1), ('q', 1), ('r', 0), ('p', 2)]))
                if f[0] == 'f' and src.n(3) == 2:
                    # non-ground fact with a variable nested in a structure: its variables belong to the fact
                    nv = ('v', '_%d' % len(ops))
                    f = ('f', f[1], (src.pick([('f', 'f', (nv,)), ('f', '.', (('a', 'a'), nv)), ('f', 'g', (nv, nv))]),) + f[2][1:])
                if any(isinstance(x, tuple) and x[0] == 'f' for x in (f[2] if f[0] == 'f' else ())) and '_' in repr(f):
                    ngfacts[e].append(f)
                ops.append(['assert', e, f, src.n(3) != 2])
                key = (f[1], len(f[2]) if f[0] == 'f' else 0)
                known[e] = list(dict.fromkeys(known[e] + [key]))
            elif k == 4:
                name, n = src.pick([('p', 1), ('q', 1), ('r', 0)])
                pat = ('f', name, tuple(('v', 'A%d' % i) for i in range(n))) if n else ('a', name)
                ops.append(['run', e, ('f', src.pick(['retract', 'retractall']), (pat,)), 3])
            elif k == 5:
                name, n = src.pick([('ext', 1), ('q', 1), ('ext', 2)])
                rows = src.pick(ROWSETS)
                rows = [r * n if len(r) == 1 else r for r in rows]
                rows = [r[:n] for r in rows]
                if (name, n) not in known[e] or name == 'ext':
                    ops.append(['register', e, name, src.pick(['inferred', 'explicit']), n, rows, [bool(src.n(2))]])
                    known[e] = list(dict.fromkeys(known[e] + [(name, n)]))
            elif k == 6 and src.n(3) == 2:
                ops.append(['clear', e])
                known[e] = []
                ngfacts[e] = []
                open_q = [(q, en) for q, en in open_q if en != e]   # their generators stay valid python objects; we simply stop using them
            elif k == 7 and src.n(2):
                ops.append(['atom', e, src.pick(['a', 'b', 'foo', '[]'])])
            elif k == 7:
                # meta-calls on atom goals, with and without extra arguments; initialisation idioms on fresh predicates
                name = src.pick(['r', 'q', 'p', 'nopred'])
                j = src.n(6)
                if j == 0:
                    g = ('f', 'call', (('a', name), ('v', 'M0')))
                elif j == 1:
                    g = ('f', 'call', (('a', name), ('v', 'M0'), ('v', 'M1')))
                elif j == 2:
                    g = ('f', src.pick(['call', 'once']), (('a', name),))
                elif j == 3:
                    g = ('f', 'findall', (('a', 'x'), ('a', name), ('v', 'M2')))
                elif j == 4:
                    fresh = src.pick(['init1', 'init2'])
                    ops.append(['run', e, ('f', 'retractall', (('f', fresh, (('v', 'M3'),)),)), 3])
                    g = ('f', 'assertz', (('f', fresh, (src.pick(CONSTS[:3]),)),))
                    known[e] = list(dict.fromkeys(known[e] + [(fresh, 1)]))
                else:
                    g = ('f', src.pick(['assertz', 'retract']), (('a', 'flag0'),))
                    known[e] = list(dict.fromkeys(known[e] + [('flag0', 0)]))
                ops.append(['run', e, g, 8])
            elif k in (8, 9) and known[e] and len(open_q) < 4:
                qid += 1
                name, n = src.pick(known[e])
                g = ('f', name, tuple(('v', 'Q%d' % i) if src.n(3) else src.pick(CONSTS + [('f', 'f', (src.pick(CONSTS),))]) for i in range(n))) if n else ('a', name)
                if ngfacts[e] and src.n(2):
                    g = inst(src, src.pick(ngfacts[e]))       # an instance of a stored non-ground fact
                if n and src.n(5) == 0:
                    g = ('f', 'retract', (g,))                # a retract that stays suspended between its answers
                ops.append(['open', e, qid, g])
                open_q.append((qid, e))
            elif k in (10, 11, 12) and open_q:
                q, _ = src.pick(open_q)
                ops.append(['step', q])
            elif k == 13 and open_q:
                q = src.pick(open_q)
                ops.append(['close', q[0]])
                open_q.remove(q)
            elif known[e]:
                name, n = src.pick(known[e])
                g = ('f', name, tuple(('v', 'Q%d' % i) for i in range(n))) if n else ('a', name)
                ops.append(['run', e, g, 12])
        for q, e in open_q:
            ops.append(['step', q])
            ops.append(['close', q])
        for e in engines:
            ops.append(['db', e])
        if src.n(4) == 0:
            # the engines get their scripts from ONE file path (a rule file shared by all engines of the process), rewritten
            # before each load
            return {'ops': ops, 'load_route': 'shared-file'}
        return {'ops': ops}

    # ------------------------------------------------------------------ projection differential
    def engine_of(self, op, qmap):
        if op[0] in ('step', 'close', 'drop'):
            return qmap.get(op[1])
        return op[1]

    def extra_decide(self, case, ops, robs, iobs, ref):
        qmap = {}
        for op in ops:
            if op[0] == 'open':
                qmap[op[2]] = op[1]
        engines = [op[1] for op in ops if op[0] == 'engine']
        for e in engines:
            sub = [(i, op) for i, op in enumerate(ops) if self.engine_of(op, qmap) == e]
            w = H.ImplWorld()
            for i, op in sub:
                if iobs[i] == 'skipped':
                    if op[0] == 'step':
                        w.op_close(op[1])
                    continue
                keys = sorted(set(ref.keys.get(e, ())) | set(H.DB_KEYS)) if op[0] == 'db' else ()
                try:
                    o = H.jn(w.do(op, keys))
                except Exception as ex:     # noqa
                    return FAIL('projection:exception-alone-but-not-interleaved', {'engine': e, 'op': H.show_op(op), 'error': repr(ex)})
                if op[0] == 'atom':
                    continue
                if o != iobs[i]:
                    return FAIL('projection-differs:' + op[0], {'history': [H.show_op(x) for x in ops[:i + 1]], 'engine': e,
                                                                 'failing_op': H.show_op(op), 'alone': H.show_obs(o),
                                                                 'interleaved': H.show_obs(iobs[i])})
        return None

    def classify(self, case, ops, robs, ref):
        qmap = {}
        mut = {}
        open_now = {}
        both = False
        classes = set()
        for op in ops:
            k = op[0]
            if k == 'open':
                qmap[op[2]] = op[1]
                open_now[op[2]] = set()
            elif k in ('close', 'drop'):
                open_now.pop(op[1], None)
            elif k in ('load', 'assert', 'register', 'clear') or (k == 'run' and tt(op[2])[1] in ('retract', 'retractall')):
                mut[op[1]] = mut.get(op[1], 0) + 1
                for q, seen in open_now.items():
                    if qmap[q] != op[1]:
                        seen.add(op[1])
                classes.add('mutation:' + k)
            if k == 'step' and op[1] in open_now and len(open_now) >= 2 and open_now[op[1]]:
                both = True
        if len([e for e, n in mut.items() if n >= 1]) >= 2:
            classes.add('>=2-engines-mutated')
        if both:
            classes.add('suspended-queries-across-foreign-mutation')
        same_script = len({repr(op[2]) for op in ops if op[0] == 'load'}) < len([op for op in ops if op[0] == 'load'])
        if same_script:
            classes.add('same-script-loaded-twice')
        return both and len([e for e, n in mut.items() if n >= 1]) >= 2, classes

    # ------------------------------------------------------------------ one thread per engine, harness-owned schedule
    def lockstep_checks(self, tier, seed):
        """the histories of the main search, but every engine is driven by a thread of its own; one operation at a time
        in history order (the harness owns the schedule, so the run is deterministic).  Observations must equal the
        reference's; an operation that only finishes once a suspended query of another engine is closed is a violation."""
        from ..gen import Src
        import hashlib
        runs = 60 if tier == 'quick' else 1500
        out = []
        for r in range(runs):
            data = hashlib.sha256(('%d/%d/lockstep' % (seed, r)).encode()).digest() * 20
            src = Src(data)
            if r % 3 == 0:
                # directed: a retract of one engine suspended after an answer while the others assert and retract
                ops = [['engine', e] for e in ENG[:2]]
                for e in ENG[:2]:
                    for _ in range(2 + src.n(2)):
                        ops.append(['assert', e, gfact(src, ('p', 1)), True])
                a, b = (ENG[0], ENG[1]) if src.n(2) else (ENG[1], ENG[0])
                ops.append(['open', a, 1, ('f', 'retract', (('f', 'p', (('v', 'Q0'),)),))])
                ops.append(['step', 1])
                for _ in range(1 + src.n(3)):
                    k = src.n(4)
                    if k == 0:
                        ops.append(['assert', b, gfact(src, ('p', 1)), bool(src.n(2))])
                    elif k == 1:
                        ops.append(['run', b, ('f', src.pick(['assertz', 'asserta']), (gfact(src, ('p', 1)),)), 3])
                    elif k == 2:
                        ops.append(['run', b, ('f', 'retract', (('f', 'p', (('v', 'A0'),)),)), 3])
                    else:
                        ops.append(['open', b, 2, ('f', 'retract', (('f', 'p', (('v', 'B0'),)),))])
                        ops.append(['step', 2])
                ops.append(['step', 1])
                ops.append(['db', a])
                ops.append(['db', b])
                case = {'ops': ops, 'lockstep_threads': True}
            else:
                case = dict(self.decode(src), lockstep_threads=True)
            o = self.decide(case)
            if r % 3 == 0 and o.status == 'ok':
                o = OK(True, list(o.classes) + ['lockstep-threads:directed-suspended-retract'])
            out.append((case, o))
            if o.status == 'fail':
                break
        return out

    # ------------------------------------------------------------------ deep suspended searches in several engines
    def decide_deep(self, case):
        """every engine enumerates mem(X, [1..n]) (the search for the k-th answer is k levels deep and stays suspended
        at that depth); the engines are advanced in the generated interleaving.  Projection oracle: each engine gives
        exactly the observations it gives when it runs alone."""
        from ..terms import mklist
        prog = [(('f', 'mem', (('v', 'X'), ('f', '.', (('v', 'X'), ('v', '_1'))))), ('true',)),
                (('f', 'mem', (('v', 'X'), ('f', '.', (('v', '_2'), ('v', 'T'))))), ('call', ('f', 'mem', (('v', 'X'), ('v', 'T')))))]
        sizes = case['deep_sizes']
        per_engine = {}
        for i, n in enumerate(sizes):
            e = 'e%d' % i
            per_engine[e] = [['engine', e], ['load', e, prog, True, 'ok'],
                             ['open', e, i + 1, ('f', 'mem', (('v', 'Q0'), mklist([('i', j) for j in range(n)])))]]
        order = []
        left = {e: n + 1 for e, n in zip(per_engine, sizes)}
        sched = list(case['schedule'])
        si = 0
        while any(left.values()):
            e = 'e%d' % (sched[si % len(sched)] % len(sizes))
            si += 1
            if not left[e]:
                e = next(x for x in sorted(left) if left[x])       # that engine is done: the next one that is not
            order.append(e)
            left[e] -= 1

        code = impl.compile_text(gen.program_text(prog))

        def run(engines, order):
            impl.WORK['limit'] = None
            eng = {}
            obs = {e: [] for e in engines}
            try:
                for e in engines:
                    yp = impl.BudgetYP(10 ** 8)
                    impl.WORK['limit'] = None
                    yp.load_script_from_string(code)
                    x = yp.variable()
                    n = sizes[int(e[1:])]
                    eng[e] = [yp.query('mem', [x, yp.makelist(list(range(n)))]), x, False]
                for e in order:
                    if e in obs and not eng[e][2]:
                        try:
                            next(eng[e][0])
                            obs[e].append(impl.flat([eng[e][1]]))          # the value of X only (iterative read-out)
                        except StopIteration:
                            obs[e].append('stop')
                            eng[e][2] = True
                        except RecursionError:
                            obs[e].append('RecursionError')
                            eng[e][2] = True
                        except Exception as ex:      # noqa
                            obs[e].append('exception %s: %s' % (type(ex).__name__, str(ex)[:120]))
                            eng[e][2] = True
            finally:
                for g, _, _ in eng.values():
                    try:
                        g.close()
                    except Exception:      # noqa
                        pass
            return obs
        together = run(list(per_engine), order)
        for e in per_engine:
            alone = run([e], order)[e]
            if together[e] != alone:
                k = next(i for i, (a, b) in enumerate(zip(together[e] + ['<nothing>'], alone + ['<nothing>'])) if a != b)
                return FAIL('deep-suspended:observations-differ-from-solo-run',
                            {'engine': e, 'list_lengths': sizes, 'first_difference_at_step': k,
                             'interleaved': str(together[e][k]) if k < len(together[e]) else '<nothing>',
                             'alone': str(alone[k]) if k < len(alone) else '<nothing>'})
        return OK(True, ['deep-suspended-searches', 'deep-suspended:total-depth-%d+' % (sum(sizes) // 100 * 100)])

    def decide(self, case):
        if 'deep_sizes' in case:
            return self.decide_deep(case)
        return super().decide(case)

    def deep_checks(self, tier, seed):
        from ..gen import Src
        import hashlib
        out = []
        for r in range(4 if tier == 'quick' else 40):
            src = Src(hashlib.sha256(('%d/%d/deep' % (seed, r)).encode()).digest() * 4)
            ne = 2 + src.n(2)
            sizes = [src.pick([60, 120, 200, 280, 330]) for _ in range(ne)]
            if r == 0:
                sizes = [330, 330]              # always: two searches that are each near the depth one engine can reach alone
            elif r == 1:
                sizes = [230, 230, 230]
            case = {'deep_sizes': sizes, 'schedule': [src.n(6) for _ in range(12)], 'ops': []}
            o = self.decide(case)
            out.append((case, o))
            if o.status == 'fail':
                break
        return out

    # ------------------------------------------------------------------ threads (secondary, sampled)
    def extra_checks(self, tier, seed):
        from ..gen import Src
        import hashlib
        runs = 12 if tier == 'quick' else 200
        out = self.lockstep_checks(tier, seed) + self.deep_checks(tier, seed)
        for r in range(runs):
            data = hashlib.sha256(('%d/%d/threads' % (seed, r)).encode()).digest() * 20
            src = Src(data)
            nthreads = 2 + src.n(3)
            hists = []
            for t in range(nthreads):
                preds, clauses = gen.gen_program(src, CFG)
                ops = [['engine', 'e'], ['load', 'e', clauses, True, 'ok']]
                for _ in range(3 + src.n(5)):
                    if src.n(3) == 0:
                        ops.append(['assert', 'e', gfact(src, src.pick([('p', 1), ('q', 1)])), True])
                    else:
                        name, n = src.pick(preds)
                        g = ('f', name, tuple(('v', 'Q%d' % i) for i in range(n))) if n else ('a', name)
                        ops.append(['run', 'e', g, 10])
                ops.append(['db', 'e'])
                hists.append(ops)
            case = {'ops': [op for h in hists for op in h], 'threads': nthreads}
            solo = []
            skip = False
            for h in hists:
                n, robs, iobs, failure, ref = H.run_history(h, 2000)
                if failure is not None or n < len(h):
                    skip = True
                    break
                solo.append(iobs)
            if skip:
                continue
            results = [None] * nthreads
            barrier = threading.Barrier(nthreads)
            old = sys.getswitchinterval()

            def work(i):
                sys.setrecursionlimit(40000)
                w = H.ImplWorld()
                obs = []
                barrier.wait()
                try:
                    for op in hists[i]:
                        obs.append(H.jn(w.do(op, H.DB_KEYS if op[0] == 'db' else ())))
                except Exception as ex:     # noqa
                    obs.append('exception %r' % ex)
                results[i] = obs
            sys.setswitchinterval(1e-6)
            try:
                threading.stack_size(64 * 1024 * 1024)
                ths = [threading.Thread(target=work, args=(i,)) for i in range(nthreads)]
                for t in ths:
                    t.start()
                for t in ths:
                    t.join()
            finally:
                sys.setswitchinterval(old)
                threading.stack_size(512 * 1024 * 1024)
            bad = None
            for i in range(nthreads):
                # the db observation of the solo run used the reference's key set; compare everything but compare db by content
                a = [o for o in results[i]]
                b = [o for o in solo[i]]
                if [x for x in a if not (isinstance(x, list) and x and x[0] == 'db')] != [x for x in b if not (isinstance(x, list) and x and x[0] == 'db')]:
                    bad = i
            if bad is not None:
                out.append((case, FAIL('threads:observations-differ-from-solo-run', {'thread': bad, 'threaded': [H.show_obs(o) for o in results[bad]], 'solo': [H.show_obs(o) for o in solo[bad]]})))
            else:
                out.append((case, OK(True, ['threads:%d' % nthreads])))
        return out


PROP = C04()

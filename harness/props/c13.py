"""C13 - a stored fact is an independent copy of the asserted term."""
from ..terms import tt, show, mklist, term_vars, term_depth
from ..runner import OK, DISCARD, FAIL
from .. import gen
from .. import history as H
from .hist import HistoryProp
from .c14 import call, conj

E = 'e0'
VS = [('v', 'X'), ('v', 'Y'), ('v', 'Z'), ('v', 'W')]
ATOMS = [('a', 'a'), ('a', 'b'), ('a', 'c'), ('i', 1)]


def gterm(src, depth=0, vars_=VS):
    k = src.n(10)
    if k < 4 or depth >= 3:
        return src.pick(vars_) if (k % 2 == 0 or depth >= 3 and src.n(2)) else src.pick(ATOMS)
    if k < 6:
        return src.pick(ATOMS)
    if k < 8:
        return ('f', 'f', (gterm(src, depth + 1, vars_),))
    if k == 8:
        return ('f', 'g', (gterm(src, depth + 1, vars_), gterm(src, depth + 1, vars_)))
    return mklist([gterm(src, depth + 1, vars_)], src.pick(vars_) if src.n(2) else ('a', '[]'))


def gbind(src, vars_=VS):
    """one binding step X = t (variable-variable links are common)"""
    v = src.pick(vars_)
    k = src.n(4)
    if k == 0:
        return (v, src.pick(vars_))
    if k == 1:
        return (v, src.pick(ATOMS))
    return (v, gterm(src, 1, vars_))


def gfactterm(src, vars_=VS):
    n = 1 + src.n(2)
    args = []
    for i in range(n):
        if i == 0 and src.n(10) == 7:
            # a long list (101-160 cells deep) whose far end holds variables: nesting depth is a dimension of its own
            m = 101 + src.n(60)
            args.append(mklist([('a', 'e')] * m + [src.pick(vars_), ('a', 'z')], src.pick(vars_) if src.n(2) else ('a', '[]')))
            continue
        if i == 1 and src.n(2):
            args.append(args[0] if src.n(2) else src.pick(vars_))     # shared variable between arguments: d(Z,Z)
        else:
            args.append(gterm(src, 0, vars_))
    return ('f', 'd', tuple(args))


def sharing_variant(src, t, vars_=VS):
    """the same skeleton with every variable occurrence chosen afresh: d(Z,Z) <-> d(X,Y), d(N,f(N)) <-> d(M,f(K))"""
    if t[0] == 'v':
        return src.pick(vars_)
    if t[0] == 'f':
        return ('f', t[1], tuple(sharing_variant(src, a, vars_) for a in t[2]))
    return t


def guse(src, n):
    """a use of d/n with ground or variable arguments"""
    out = []
    for _ in range(n):
        k = src.n(4)
        out.append(('v', 'U%d' % src.n(3)) if k == 0 else ('f', 'f', (src.pick(ATOMS),)) if k == 1 else src.pick(ATOMS))
    return ('f', 'd', tuple(out))


class C13(HistoryProp):
    id = 'C13'
    title = 'A stored fact is an independent copy of the asserted term'
    technique = 'model-based property testing: generated binding histories around assert, compiled and API level, vs. reference model (copy at assert, rename at use)'
    rule = ('(a) compiled clauses t(..) :- B1, assert(d(T..)), B2, uses: binding steps V = term over X,Y,Z,W (variable '
            'chains, structures, list tails) before and after the assert of a term of depth 0-3 with shared variables, '
            'followed by 0-3 uses of the fact in the same clause (also twice with incompatible arguments), then later '
            'queries from outside and the database read back; asserta/assertz, directly or through a variable-held goal; '
            '(b) API level: unify generators opened and kept open, YP.assert_fact of a term over the shared variables '
            'under that stack, generators closed in generated (also non-LIFO) order, then queries; (c) one case in three: two uses of one non-ground fact alive at the same time at the Python API (an enumeration and a retract or second enumeration), in half of them after 1-6 ground facts of the same predicate were asserted and retracted again. Observations compared '
            'with the reference model; additionally every unbound Variable OBJECT that appears in an answer must be new '
            '(fresh at every use: an object seen in an earlier use never comes back). Non-trivial = the asserted term has a variable that is bound through another '
            'variable or inside a structure at assert time, or the stored fact is non-ground and used >= 2 times; '
            'distinct = SHA-1 of the operation list.')
    assumptions = ['CPython 3.12 of /venv', 'reference R: assert stores a resolved copy with fresh variables, every use renames',
                   'unifications needing a cyclic term are discarded (unspecified)']
    cases = {'quick': 3000, 'thorough': 50000}
    genome = {'quick': 200, 'thorough': 300}
    track_fresh = True

    def decode_interleaved(self, src):
        """two uses of one NON-GROUND fact alive at the same time at the Python API: an enumeration that started earlier
        (it works on its snapshot) and a retract / a second enumeration that binds the fact's variables meanwhile"""
        ops = [['engine', E]]
        shapes = [lambda v: ('f', 'g', (v,)), lambda v: v, lambda v: ('f', '.', (('a', 'a'), v)), lambda v: ('f', 'g', (('f', 'f', (v,)),))]
        nf = 1 + src.n(3)
        if src.n(2):
            # the store has a past: ground facts that were asserted and retracted again before (their objects are gone;
            # whatever was remembered about them must not be taken for a property of the facts that come after)
            k = 1 + src.n(6)
            for i in range(k):
                ops.append(['assert', E, ('f', 'd', (src.pick(ATOMS),)), True])
            if src.n(2):
                ops.append(['run', E, ('f', 'retractall', (('f', 'd', (('v', 'R0'),)),)), 3])
            else:
                for i in range(k):
                    ops.append(['run', E, ('f', 'retract', (('f', 'd', (('v', 'R0'),)),)), 1])
        for i in range(nf):
            if src.n(3) == 0:
                ops.append(['assert', E, ('f', 'd', (src.pick(ATOMS),)), True])
            sh = src.pick(shapes)
            ops.append(['assert', E, ('f', 'd', (sh(('v', 'F%d' % i)),)), src.n(4) != 0])
        ops.append(['open', E, 1, ('f', 'd', (('v', 'Q0'),))])
        for _ in range(src.n(3)):
            ops.append(['step', 1])
        sh = src.pick(shapes)
        pat = ('f', 'd', (sh(src.pick(ATOMS) if src.n(3) else ('v', 'P0')),))
        ops.append(['open', E, 2, ('f', 'retract', (pat,)) if src.n(3) else pat])
        ops.append(['step', 2])
        if src.n(2):
            ops.append(['step', 2])
        for _ in range(nf + 2):
            ops.append(['step', 1])
        ops.append(['db', E])
        ops.append(['close', 2])
        ops.append(['close', 1])
        ops.append(['db', E])
        ops.append(['run', E, ('f', 'd', (('v', 'Q1'),)), 20])
        return {'ops': ops}

    def decode(self, src):
        if src.n(6) >= 4:
            return self.decode_interleaved(src)
        ops = [['engine', E]]
        mode = src.n(3)
        facts = []
        if mode < 2:
            nb1, nb2 = src.n(4), src.n(3)
            steps = []
            for _ in range(nb1):
                a, b = gbind(src)
                steps.append(call('=', a, b))
            ft = gfactterm(src)
            facts.append(ft)
            how = src.n(4)
            op = 'asserta' if how == 1 else 'assertz'
            if how == 3:
                steps.append(call('=', ('v', 'G'), ('f', op, (ft,))))
                steps.append(call('call', ('v', 'G')))
            else:
                steps.append(call(op, ft))
            if src.n(3) == 1:
                # a second fact with the same skeleton but another sharing pattern of its variables
                steps.append(call(src.pick(['assertz', 'asserta']), sharing_variant(src, ft)))
            for _ in range(nb2):
                a, b = gbind(src)
                steps.append(call('=', a, b))
            for _ in range(src.n(4)):
                steps.append(('call', guse(src, len(ft[2]))))
            if src.n(3) == 2:
                steps.append(('fail',))
            head = ('f', 't', tuple(VS[:1 + src.n(4)]))
            clauses = [(head, conj(*steps)), (('f', 't', tuple(('a', 'z') for _ in head[2])), ('true',))]
            ops.append(['load', E, clauses, True, 'ok'])
            q = ('f', 't', tuple(('v', 'Q%d' % i) if src.n(3) else src.pick(ATOMS) for i in range(len(head[2]))))
            ops.append(['run', E, q, 20])
            ops.append(['db', E])
        else:
            uid = 0
            live = []
            for _ in range(1 + src.n(4)):
                uid += 1
                a, b = gbind(src)
                ops.append(['unify', E, uid, a, b])
                live.append(uid)
                if src.n(5) == 4 and live:
                    ops.append(['release', E, live.pop()])          # LIFO release before the assert
            ft = gfactterm(src)
            facts.append(ft)
            ops.append(['assertv', E, ft, src.n(3) != 2])
            if src.n(3) == 1:
                ops.append(['assertv', E, sharing_variant(src, ft), src.n(3) != 2])
            ops.append(['db', E])
            for _ in range(src.n(3)):
                uid += 1
                a, b = gbind(src)
                ops.append(['unify', E, uid, a, b])
                live.append(uid)
            ops.append(['db', E])
            while live:                                              # release in any order
                ops.append(['release', E, live.pop(src.n(len(live)))])
                if src.n(2):
                    ops.append(['db', E])
        n = len(facts[0][2])
        # later uses from outside: single, and twice in one body
        for _ in range(1 + src.n(3)):
            ops.append(['run', E, guse(src, n), 20])
        u1, u2 = guse(src, n), guse(src, n)
        ops.append(['load', E, [(('f', 'two', tuple(('v', 'U%d' % i) for i in range(3))), conj(('call', u1), ('call', u2)))], True, 'ok'])
        ops.append(['run', E, ('f', 'two', tuple(('v', 'R%d' % i) for i in range(3))), 20])
        ops.append(['db', E])
        return {'ops': ops}

    def classify(self, case, ops, robs, ref):
        classes = set()
        it = ref.eng[E]
        nonground = any(term_vars(f.term, []) for fs in it.facts.values() for f in fs)
        deep = any(term_depth(f.term) >= 2 for fs in it.facts.values() for f in fs)
        api = any(op[0] == 'assertv' for op in ops)
        classes.add('api-level' if api else 'compiled')
        if nonground:
            classes.add('non-ground-fact-stored')
        if deep:
            classes.add('fact-depth>=2')
        uses = sum(1 for op in ops if op[0] == 'run' and tt(op[2])[1] in ('d', 'two'))
        binds = sum(1 for op in ops if op[0] == 'unify') + sum(str(op).count("'='") for op in ops if op[0] == 'load')
        nt = (nonground and uses >= 2) or (deep and binds >= 1) or binds >= 2
        return nt, classes


PROP = C13()

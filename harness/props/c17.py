"""C17 - evaluate_bounded returns a prefix of the answers and restores the interpreter."""
import gc
import sys
from ..terms import tt, show, canon, mklist, NIL
from ..runner import Prop, OK, DISCARD, FAIL
from .. import gen
from .. import impl
from . import common as C

FAMILY = r"""
nat(z). nat(s(X)) :- nat(X).
len([], z). len([_|T], s(N)) :- len(T, N).
lr(X) :- lr(X).
lr2(X) :- lr2(Y), q2(Y, X).
q(a). q(b). q(c).
q2(a, b).
down(z). down(s(N)) :- down(N).
deep(N, L) :- findall(found, down(N), L).
deep(_, other).
fa(L) :- findall(X, nat(X), L).
fa(none).
cnt(N, N). cnt(N, M) :- cnt(s(N), M).
mem(X, [X|_]). mem(X, [_|T]) :- mem(X, T).
app([], L, L). app([H|T], L, [H|R]) :- app(T, L, R).
od(N, yes) :- once(down(N)).
od(_, no).
ng(N, R) :- ( \+ down(N) -> R = no ; R = yes ).
two(X, Y) :- q(X), down(Y).
same(X, X).
eql(A, B) :- A = B.
dif(A, B, R) :- A \= B, R = different.
dif(_, _, same).
ndf(A, B, R) :- \+ A = B, R = different.
ndf(_, _, same).
"""


MARGIN = 12      # frames of slack between "the plain search completes" and "evaluate_bounded must complete"


def peano(n):
    t = ('a', 'z')
    for _ in range(n):
        t = ('f', 's', (t,))
    return t


def depth_now():
    f = sys._getframe()
    n = 0
    while f is not None:
        n += 1
        f = f.f_back
    return n


class ProjValueError(ValueError):
    pass


class ProjRuntimeError(RuntimeError):
    pass


class C17(Prop):
    id = 'C17'
    title = 'evaluate_bounded returns a prefix of the answers and restores the interpreter'
    technique = 'property-based differential testing (Hypothesis) of evaluate_bounded against a plain loop under the same recursion limit, the reference interpreter, and itself under a larger limit (metamorphic prefix relation); fault injection in the projection function'
    rule = ('queries from a family (finite shallow facts; finite but deep: len/2 on a list of length n, down/1 on a '
            'Peano number; left-recursive without answers; infinitely many answers at growing depth: nat/1, cnt/2; goals '
            'through findall/once/negation whose inner search is too deep; two-goal conjunctions; a registered Python predicate that yields True; a predicate combined from two scripts whose first clause ends in a cut; a predicate with asserted facts beside its compiled clauses; two lists of n elements unified with each other through same(X,X) / A = B) with generated sizes, '
            'plus random generic programs, x recursion limits from 25 to 465 frames above the caller x projection '
            'functions that return the answer, raise ValueError / a RuntimeError subclass at answer k, run a nested evaluate_bounded on the same engine with another limit, use the recursive get_value of the engine (which may itself overflow at a deep answer), or recurse deeply '
            'themselves x the interpreter\'s own limit before the call (generous, or LOWER than the requested limit). Oracles: no RecursionError (or other exception than the projection\'s own non-RuntimeError) '
            'escapes; if a plain loop over the same generator completes under a limit 12 frames LOWER (the frames evaluate_bounded uses itself are not specified), the result equals '
            'that list and R\'s answers; otherwise it agrees with R\'s answer prefix; the result under limit L and the '
            'result under L + 600 are prefix-comparable (both are prefixes of the one true sequence); afterwards '
            'sys.getrecursionlimit() is what it was and every engine variable ever created is unbound - on the normal, '
            'overflow and projection-raises paths; when R finished with at most 12 answers, the query is then run again on the same engine and argument objects under a generous limit and must give the reference answers. Non-trivial = the limit struck during the search or the projection '
            'raised; distinct = SHA-1 of program + query + limit + projection.')
    assumptions = ['CPython 3.12 of /venv: recursion depth counts Python frames per thread deterministically', 'one thread; the caller\'s own stack is shallower than the limit (limits are chosen relative to the measured depth)',
                   'reference interpreter R for the true answer sequence (prefix when R itself is bounded)']
    cases = {'quick': 960, 'thorough': 20000}
    genome = {'quick': 300, 'thorough': 300}
    CFG = gen.with_cfg(control=frozenset(['cut', ';', 'ite', 'not']), meta=True, library=True)

    def selftest(self, tier):
        return C.oracle_selftest(tier)

    def decode(self, src):
        k = src.n(16)
        n = src.pick([0, 1, 3, 10, 30, 60, 100, 150])
        X, Y = ('v', 'X'), ('v', 'Y')
        text = FAMILY
        clauses = None
        dyn = []
        pyfunc = None
        extra_scripts = []
        special = src.n(8)
        if special == 7:
            k = 100 + src.n(5)
        if k == 100:
            q = ('f', 'pyq', (X,))
            pyfunc = {'name': 'pyq', 'rows': [[('a', 'r1')], [('a', 'r2')], [('a', 'r3')]], 'yields': [bool(src.n(2)), True, bool(src.n(2))]}
        elif k == 101:
            # q/1 has compiled clauses (a, b, c) AND asserted facts
            q = ('f', 'q', (X,))
            dyn = [('f', 'q', (('a', 'd1'),)), ('f', 'q', (('a', 'd2'),))]
        elif k == 102:
            # col/1 is combined from two scripts (overwrite off); the clause of the first one ends in a cut
            q = ('f', 'col', (X,))
            extra_scripts = [[(('f', 'col', (('a', 'red'),)), ('cut',))], [(('f', 'col', (('a', 'green'),)), ('true',)), (('f', 'col', (('a', 'blue'),)), ('true',))]]
        elif k == 103:
            # two structures of depth n unified with each other (not with a fresh variable, as clause heads do):
            # doing and undoing that unification both need stack depth
            if src.n(3):
                l1 = mklist([('v', 'E%d' % i) if (i % 3 or src.n(2)) else ('a', 'a%d' % i) for i in range(n)], Y if src.n(3) == 0 else NIL)
                l2 = mklist([('a', 'a%d' % i) for i in range(n)], mklist([('a', 'c')]) if src.n(4) == 0 else NIL)
            else:
                l1 = mklist([X] + [('a', 'a')] * n, Y if src.n(2) else NIL)
                l2 = mklist([('a', 'b')] + [('a', 'a')] * n, mklist([('a', 'c')]) if src.n(2) else NIL)
            q = ('f', src.pick(['same', 'eql']), (l1, l2) if src.n(2) else (l2, l1))
        elif k == 104:
            # a deep unification INSIDE \= / \+: when it runs out of stack the answer must not become "different"
            l1 = mklist([('a', 'a%d' % (i % 5)) for i in range(n)])
            l2 = mklist([('a', 'a%d' % (i % 5)) for i in range(n)] if src.n(3) else [('a', 'a%d' % (i % 5)) for i in range(max(0, n - 1))] + [('a', 'zz')])
            q = ('f', src.pick(['dif', 'ndf']), (l1, l2, X))
        elif k == 0:
            q = ('f', 'q', (X,))
        elif k == 1:
            q = ('f', 'len', (mklist([('a', 'a')] * n), X))
        elif k == 2:
            q = ('f', 'nat', (X,))
        elif k == 3:
            q = ('f', 'lr', (X,))
        elif k == 4:
            q = ('f', 'lr2', (X,))
        elif k == 5:
            q = ('f', 'down', (peano(n),))
        elif k == 6:
            q = ('f', 'deep', (peano(n), X))
        elif k == 7:
            q = ('f', 'fa', (X,))
        elif k == 8:
            q = ('f', 'cnt', (('a', 'z'), X))
        elif k == 9:
            q = ('f', 'mem', (X, mklist([('i', i) for i in range(n % 40)])))
        elif k == 10:
            q = ('f', 'app', (X, Y, mklist([('i', i) for i in range(n % 25)])))
        elif k == 11:
            q = ('f', 'od', (peano(n), X))
        elif k == 12:
            q = ('f', 'ng', (peano(n), X))
        elif k == 13:
            q = ('f', 'two', (X, peano(n)))
        elif k == 14:
            # dynamic facts of arity 2: an earlier argument binds a query variable, a later argument is deep
            q = ('f', 'route', (X, mklist([('a', 'a')] * n)))
            deep = mklist([('a', 'a')] * n)
            dyn = src.pick([[('f', 'route', (('a', 'k1'), ('v', '_1'))), ('f', 'route', (('a', 'k2'), ('v', '_2')))],
                            [('f', 'route', (('a', 'k1'), deep)), ('f', 'route', (('a', 'k2'), mklist([('a', 'a')] * (n + 1))))],
                            [('f', 'route', (('a', 'k1'), ('v', '_1'), deep)), ('f', 'route', (('a', 'k2'), ('v', '_2'), ('a', 'x')))]])
            if len(dyn[0][2]) == 3:
                q = ('f', 'route', (X, deep, Y))
        else:
            preds, clauses = gen.gen_program(src, self.CFG)
            q = gen.gen_query(src, preds, self.CFG, clauses)
            text = gen.program_text(clauses)
        proj = src.pick(['value', 'value', 'value', 'raise-value', 'raise-runtime', 'deep-recursion', 'engine-value', 'nested'])
        if (dyn or pyfunc or extra_scripts) and src.n(2):
            proj = 'raise-value'
        delta = 25 + src.n(6) * src.n(6) * 16 + src.n(40)
        if src.n(12) == 7:
            delta = src.pick([0, 1, 2, 3, 5, 8, 13])        # hardly any room above the caller (0: the frame of evaluate_bounded itself does not fit)
        if proj == 'engine-value' and src.n(3):
            # an answer built by a chain of n bindings (outer first, inner later), limits around the depth that the search
            # and the dereferencing of the answer need
            n = src.pick([10, 30, 60, 100])
            text, clauses, dyn, pyfunc, extra_scripts = FAMILY, None, [], None, []
            items = mklist([('a', 'e%d' % (i % 7)) for i in range(n)])
            q = src.pick([('f', 'len', (items, X)), ('f', 'app', (items, mklist([('a', 'x')]), X)), ('f', 'app', (X, Y, items))])
            delta = max(25, 2 * n + src.n(4 * n + 40))
            k = 1
        if k in (103, 104) and src.n(4):
            delta = max(25, 2 * n + src.n(n + 40))        # around the depth that doing / undoing the unification needs
        return {'text': text, 'clauses': clauses, 'query': q, 'limit_delta': delta,
                'proj': proj, 'k': src.n(5), 'proj_depth': src.pick([5, 40, 200, 2000]), 'dyn': dyn, 'pyfunc': pyfunc, 'extra_scripts': extra_scripts,
                'interpreter_limit': src.pick(['high', 'high', 'low'])}

    def sample_view(self, case):
        return {'program': 'family' if case['clauses'] is None else case['text'], 'query': show(tt(case['query'])) if len(repr(case['query'])) < 600 else repr(case['query'])[:200] + '...',
                'limit_above_caller': case['limit_delta'], 'projection': case['proj'], 'k': case['k'], 'interpreter_limit_before': case.get('interpreter_limit', 'high'),
                'dynamic_facts': len(case.get('dyn') or [])}

    def case_key(self, case):
        return repr((case['text'] if case['clauses'] else 'family', case['query'], case['limit_delta'], case['proj'], case['k'], case['proj_depth']))

    def shrink_candidates(self, case):
        if case['proj'] != 'value':
            yield dict(case, proj='value')
        d = case['limit_delta']
        for d2 in (d // 2, d - 10, d - 1):
            if d2 >= 0 and d2 != d:
                yield dict(case, limit_delta=d2)

    # ------------------------------------------------------------------
    def run_once(self, code, q, delta, proj_kind, k, proj_depth, mode, dyn=(), interp='high', pyfunc=None, extra_scripts=()):
        if getattr(self, '_family_case', False):
            # family programs: known cost, so the engine runs without the harness's counting wrapper (same frames per
            # level as in real use)
            with impl.without_work_counter():
                return self._run_once(code, q, delta, proj_kind, k, proj_depth, mode, dyn, interp, pyfunc, extra_scripts)
        return self._run_once(code, q, delta, proj_kind, k, proj_depth, mode, dyn, interp, pyfunc, extra_scripts)

    def _run_once(self, code, q, delta, proj_kind, k, proj_depth, mode, dyn=(), interp='high', pyfunc=None, extra_scripts=()):
        """mode 'bounded' -> YP.evaluate_bounded; mode 'plain' -> plain loop with the identical frame shape.
        returns dict(result, completed, escaped, limit_after, bound_after, boundvars_after)"""
        gc.collect()
        yp = impl.YP()
        yp.load_script_from_string(code)
        for t in dyn:
            vm = {}
            yp.assert_fact(yp.atom(t[1]), [impl.to_engine(yp, x, vm) for x in t[2]])
        for cl in extra_scripts:
            yp.load_script_from_string(impl.compile_text(gen.program_text(cl)), overwrite=False)
        if pyfunc:
            from .. import history as H
            rows = [tuple(r) for r in tt(pyfunc['rows'])]
            yp.register_function(pyfunc['name'], H.make_pyfunc(yp, rows, len(rows[0]), 'inferred', pyfunc['yields'], None))
        name, args = impl.goal_parts(q)
        vmap = {}
        eargs = [impl.to_engine(yp, a, vmap) for a in args]
        cnt = {'i': 0}
        nested_results = []

        def value():
            return impl.flat(eargs)       # iterative: the projection itself needs no recursion depth

        def rec(n):
            return 0 if n <= 0 else 1 + rec(n - 1)

        def proj(x):
            cnt['i'] += 1
            if proj_kind == 'engine-value':
                # the documented projection: the engine's own (recursive) get_value of the query arguments; it may
                # itself run out of stack at a deep answer
                v = impl.flat([impl.get_value(a) for a in eargs])
            else:
                v = value()
            if proj_kind == 'raise-value' and cnt['i'] > k:
                raise ProjValueError('projection')
            if proj_kind == 'raise-runtime' and cnt['i'] > k:
                raise ProjRuntimeError('projection')
            if proj_kind == 'deep-recursion' and cnt['i'] > k:
                rec(proj_depth)
            if proj_kind == 'nested':
                # the projection asks the same engine a second, bounded question per answer (with another limit)
                inner = yp.variable()
                got = yp.evaluate_bounded(yp.query('q', [inner]), lambda x: impl.flat([inner]), recursion_limit=depth_now() + 40 + 13 * (cnt['i'] % 3))
                nested_results.append(len(got))
            return v
        g = yp.query(name, eargs)
        old = sys.getrecursionlimit()
        out = {'escaped': None, 'completed': None}
        base = depth_now()
        limit = base + delta
        impl.WORK['n'] = 0
        impl.WORK['limit'] = 3000000
        if interp == 'low':
            # the interpreter's own limit is LOWER than the requested one: evaluate_bounded must still search up to
            # the requested depth
            sys.setrecursionlimit(base + 60)
        try:
            if mode == 'bounded':
                out['result'] = yp.evaluate_bounded(g, proj, recursion_limit=limit)
            else:
                out['result'], out['completed'] = self._call_plain(g, proj, limit)
        except RecursionError as e:
            out['escaped'] = 'RecursionError'
            out['result'] = None
        except ProjValueError:
            out['escaped'] = 'ProjValueError'
            out['result'] = None
        except ProjRuntimeError:
            out['escaped'] = 'ProjRuntimeError'
            out['result'] = None
        except (impl.ImplBudget, impl.ImplWork):
            out['escaped'] = 'work-budget'
            out['result'] = None
        finally:
            out['limit_after'] = sys.getrecursionlimit()
            sys.setrecursionlimit(old)
        if interp == 'low':
            out['expected_limit_low'] = base + 60
        # the caller still holds g (documented usage); the query variables must be unbound all the same - at once,
        # not only after a garbage collection
        out['query_vars_bound_immediately'] = sum(1 for v in vmap.values() if impl.get_value(v) is not v)
        gc.collect()
        out['bound_after'] = len(impl.bound_variables())
        if hasattr(g, 'close'):
            g.close()
        del g
        gc.collect()
        out['expected_limit'] = old
        if mode == 'bounded' and getattr(self, '_rerun', 0):
            # the same engine, the same argument objects, a generous limit: the answers must be the reference's again
            want = self._rerun
            res = []
            sys.setrecursionlimit(base + 6000)
            try:
                g2 = yp.query(name, eargs)
                try:
                    for _ in g2:
                        res.append(self._ans(name, eargs))
                        if len(res) >= want:
                            break
                finally:
                    g2.close()
                out['rerun'] = res
            except RecursionError:
                out['rerun'] = None
            except (impl.ImplBudget, impl.ImplWork):
                out['rerun'] = None
            except Exception as e:      # noqa
                out['rerun'] = 'exception %s: %s' % (type(e).__name__, str(e)[:200])
            finally:
                sys.setrecursionlimit(old)
        return out

    def _ans(self, name, eargs):
        seen = {}
        if not eargs:
            return ('a', name)
        return ('f', name, tuple(impl.reify(a, seen) for a in eargs))

    def _call_bounded(self, yp, g, proj, limit):
        return yp.evaluate_bounded(g, proj, recursion_limit=limit)

    def _call_plain(self, g, proj, limit):
        # same frame shape as evaluate_bounded: one frame (this method) between the caller and the iteration
        old = sys.getrecursionlimit()
        res = []
        completed = False
        try:
            sys.setrecursionlimit(limit)
            for x in g:
                res.append(proj(x))
            completed = True
        except RuntimeError as e:
            if not isinstance(e, RecursionError):
                completed = None
        finally:
            sys.setrecursionlimit(old)
        return res, completed

    def decide(self, case):
        self._family_case = case['clauses'] is None
        q = tt(case['query'])
        comp = C.compile_case(case['text'])
        if comp[0] == 'exc':
            return DISCARD('program refused by the compiler')
        code = comp[1]
        clauses = tt(case['clauses']) if case['clauses'] is not None else self.family_clauses()
        st, ref, it = C.run_ref(clauses, q, max_steps=6000, max_depth=400, limit=40)
        if st == 'unspec' or 'findall-nonground-instance' in it.events:
            return DISCARD('unspecified')
        ref_terms = ref
        ref = [impl.flat_ref(a[2] if a[0] == 'f' else ()) for a in ref]
        detail = self.sample_view(case)
        kind, k, delta = case['proj'], case['k'], case['limit_delta']
        dyn = tt(case.get('dyn') or [])
        interp = case.get('interpreter_limit', 'high')
        pyfunc = case.get('pyfunc')
        extra_scripts = tt(case.get('extra_scripts') or [])
        if dyn or pyfunc or extra_scripts:
            from ..refint import as_program
            prog = as_program(clauses)
            for cl in extra_scripts:
                for key, cls in as_program(cl).items():
                    prog[key] = prog.get(key, []) + cls
            if pyfunc:
                rows = [tuple(r) for r in tt(pyfunc['rows'])]
                prog[(pyfunc['name'], len(rows[0]))] = [('rows', rows)]

            def setup(it):
                for t in dyn:
                    it.assert_fact(t)
            st, ref, it = C.run_ref(prog, q, max_steps=6000, max_depth=400, limit=40, setup=setup)
            ref_terms = ref
            ref = [impl.flat_ref(x[2] if x[0] == 'f' else ()) for x in ref]
        self._rerun = (len(ref) + 1) if (st == 'done' and len(ref) <= 12) else 0
        try:
            a = self.run_once(code, q, delta, kind, k, case['proj_depth'], 'bounded', dyn, interp, pyfunc, extra_scripts)
        finally:
            self._rerun = 0
        detail['reference_answers'] = C.answers_view(ref_terms[:6]) + (['...'] if len(ref) > 6 else [])
        detail['reference_status'] = st
        if a['escaped'] == 'work-budget':
            return DISCARD('term-copying work budget')
        if a['escaped'] == 'RecursionError':
            return FAIL('recursion-error-escaped', detail)
        if a['escaped'] == 'ProjValueError' and kind != 'raise-value':
            return FAIL('unexpected-exception', detail)
        if kind == 'raise-value' and a['escaped'] is None and len(a['result']) > k and (st != 'done' or len(ref) > k):
            return FAIL('projection-exception-swallowed', dict(detail, result=[str(x)[:200] for x in a['result'][:6]]))
        if interp == 'low':
            a['expected_limit'] = a['expected_limit_low']
        if a['query_vars_bound_immediately']:
            return FAIL('query-variables-bound-right-after-the-call', dict(detail, bound=a['query_vars_bound_immediately']))
        if a['limit_after'] != a['expected_limit']:
            return FAIL('recursion-limit-not-restored', dict(detail, before=a['expected_limit'], after=a['limit_after']))
        if a['bound_after']:
            return FAIL('variables-bound-after-the-call', dict(detail, bound=a['bound_after']))
        if a.get('rerun') is not None:
            if isinstance(a['rerun'], str):
                return FAIL('rerun-after-the-call-raises', dict(detail, error=a['rerun']))
            got = [canon(x) for x in a['rerun']]
            if got != ref_terms:
                return FAIL('rerun-after-the-call:answers-differ', dict(detail, rerun=C.answers_view(got[:6])))
        classes = ['projection:' + kind]
        struck = False
        if a['result'] is not None:
            res = a['result']
            # agreement with R's prefix
            n = min(len(res), len(ref))
            if res[:n] != ref[:n]:
                return FAIL('result-is-not-a-prefix-of-the-answers', dict(detail, result=[str(x)[:200] for x in res[:6]]))
            if st == 'done' and len(res) > len(ref):
                return FAIL('result-has-extra-answers', dict(detail, result=[str(x)[:200] for x in res[:6]]))
            if kind in ('value', 'nested', 'engine-value'):
                # "the search stays within the depth limit" is decided by a plain loop over the same generator under a
                # limit that is MARGIN frames lower (how many frames evaluate_bounded itself uses is not specified): if
                # even that completes, the bounded call must return every answer
                if delta - MARGIN >= 5:
                    p = self.run_once(code, q, delta - MARGIN, kind, k, case['proj_depth'], 'plain', dyn, 'high', pyfunc, extra_scripts)
                else:
                    p = {'completed': False, 'result': None}        # no room for the comparison run: only the prefix relation is claimed
                if p['completed'] is True:
                    if res != p['result']:
                        return FAIL('search-fits-within-the-limit-but-answers-differ-from-plain-loop', dict(detail, result=len(res), plain=len(p['result']), margin_frames=MARGIN))
                    if st == 'done' and res != ref:
                        return FAIL('complete-search-but-answers-missing', dict(detail, result=[str(x)[:200] for x in res[:6]]))
                    classes.append('search-completed-within-limit')
                elif p['completed'] is False:
                    struck = True
                    classes.append('limit-struck')
                # metamorphic: a larger limit gives a prefix-comparable result
                b = self.run_once(code, q, delta + 600, kind, k, case['proj_depth'], 'bounded', dyn, 'high', pyfunc, extra_scripts) if (struck or st != 'done') else {'result': None}
                if b['result'] is not None:
                    m = min(len(res), len(b['result']))
                    if res[:m] != b['result'][:m]:
                        return FAIL('results-under-two-limits-are-not-prefix-comparable', dict(detail, result=[str(x)[:200] for x in res[:4]], larger_limit=[str(x)[:200] for x in b['result'][:4]]))
                    if len(b['result']) < len(res):
                        return FAIL('larger-limit-gives-fewer-answers', detail)
            elif kind == 'deep-recursion':
                struck = case['proj_depth'] > delta
                classes.append('projection-recursed')
        raised = kind in ('raise-value', 'raise-runtime') and (a['escaped'] is not None or (a['result'] is not None and len(a['result']) <= k + 1))
        if raised:
            classes.append('projection-raised')
        classes.append('answers:%s' % ('0' if not ref else '1' if len(ref) == 1 else 'many'))
        return OK(struck or raised, classes)

    _fam = None

    def family_clauses(self):
        if C17._fam is None:
            C17._fam = parse_family()
        return C17._fam


def parse_family():
    """the family program as reference clauses (written out by hand, mirrors FAMILY)"""
    V = lambda n: ('v', n)      # noqa: E731
    f = lambda name, *a: ('f', name, tuple(a))      # noqa: E731
    lp = lambda h, t: ('f', '.', (h, t))      # noqa: E731
    call = lambda t: ('call', t)      # noqa: E731
    z = ('a', 'z')
    A = lambda n: ('a', n)      # noqa: E731
    T = ('true',)
    return [
        (f('nat', z), T), (f('nat', f('s', V('X'))), call(f('nat', V('X')))),
        (f('len', NIL, z), T), (f('len', lp(V('_1'), V('T')), f('s', V('N'))), call(f('len', V('T'), V('N')))),
        (f('lr', V('X')), call(f('lr', V('X')))),
        (f('lr2', V('X')), (',', call(f('lr2', V('Y'))), call(f('q2', V('Y'), V('X'))))),
        (f('q', A('a')), T), (f('q', A('b')), T), (f('q', A('c')), T),
        (f('q2', A('a'), A('b')), T),
        (f('down', z), T), (f('down', f('s', V('N'))), call(f('down', V('N')))),
        (f('deep', V('N'), V('L')), call(f('findall', A('found'), f('down', V('N')), V('L')))),
        (f('deep', V('_1'), A('other')), T),
        (f('fa', V('L')), call(f('findall', V('X'), f('nat', V('X')), V('L')))),
        (f('fa', A('none')), T),
        (f('cnt', V('N'), V('N')), T), (f('cnt', V('N'), V('M')), call(f('cnt', f('s', V('N')), V('M')))),
        (f('same', V('X'), V('X')), T), (f('eql', V('A'), V('B')), call(f('=', V('A'), V('B')))),
        (f('dif', V('A'), V('B'), V('R')), (',', call(f('\\=', V('A'), V('B'))), call(f('=', V('R'), A('different'))))),
        (f('dif', V('_1'), V('_2'), A('same')), T),
        (f('ndf', V('A'), V('B'), V('R')), (',', ('not', call(f('=', V('A'), V('B')))), call(f('=', V('R'), A('different'))))),
        (f('ndf', V('_1'), V('_2'), A('same')), T),
        (f('mem', V('X'), lp(V('X'), V('_1'))), T), (f('mem', V('X'), lp(V('_1'), V('T'))), call(f('mem', V('X'), V('T')))),
        (f('app', NIL, V('L'), V('L')), T),
        (f('app', lp(V('H'), V('T')), V('L'), lp(V('H'), V('R'))), call(f('app', V('T'), V('L'), V('R')))),
        (f('od', V('N'), A('yes')), call(f('once', f('down', V('N'))))), (f('od', V('_1'), A('no')), T),
        (f('ng', V('N'), V('R')), (';', ('->', ('not', call(f('down', V('N')))), call(f('=', V('R'), A('no')))), call(f('=', V('R'), A('yes'))))),
        (f('two', V('X'), V('Y')), (',', call(f('q', V('X'))), call(f('down', V('Y'))))),
    ]


PROP = C17()

"""C14 - changing a predicate while it is being enumerated (logical update view)."""
from ..terms import tt, show, mklist
from ..runner import OK, DISCARD, FAIL
from .. import gen
from .. import history as H
from .hist import HistoryProp

E = 'e0'
X, Y, N = ('v', 'X'), ('v', 'Y'), ('v', 'N')
K = [('a', 'a'), ('a', 'b'), ('a', 'c'), ('i', 1), ('i', 2)]


def call(name, *args):
    return ('call', ('f', name, tuple(args)) if args else ('a', name))


def conj(*xs):
    xs = list(xs)
    r = xs.pop()
    while xs:
        r = (',', xs.pop(), r)
    return r


def d(t):
    return ('f', 'd', (t,))


def gmod(src, var=None):
    """a modification goal on d/1"""
    k = src.n(6)
    t = src.pick(K) if (var is None or src.n(3)) else var
    if k == 0:
        return ('f', 'assertz', (d(t),))
    if k == 1:
        return ('f', 'asserta', (d(t),))
    if k == 2:
        return ('f', 'retract', (d(t),))
    if k == 3:
        return ('f', 'retract', (d(('v', 'Any')),))
    if k == 4:
        return ('f', 'retractall', (d(t if src.n(2) else ('v', 'Any')),))
    return ('f', 'assertz', (d(t),))


IDIOMS = {
    'drain': [(('a', 'drain'), conj(call('d', X), call('retract', d(X)), ('fail',))), (('a', 'drain'), ('true',))],
    'counter': [(('a', 'upd'), conj(call('retract', ('f', 'c', (N,))), call('assertz', ('f', 'c', (('f', 's', (N,)),))), ('fail',))),
                (('a', 'upd'), ('true',))],
    'copy': [(('a', 'copy'), conj(call('d', X), call('assertz', ('f', 'q', (X,))), ('fail',))), (('a', 'copy'), ('true',))],
    'dup': [(('a', 'dup'), conj(call('d', X), call('assertz', d(X)), ('fail',))), (('a', 'dup'), ('true',))],
    'grow': [(('f', 't', (X,)), conj(call('assertz', d(('i', 1))), call('d', X), call('assertz', d(('i', 2)))))],
    'drain2': [(('a', 'drain2'), conj(call('retract', d(X)), call('retract', d(Y)), ('fail',))), (('a', 'drain2'), ('true',))],
}


class C14(HistoryProp):
    id = 'C14'
    title = 'Changing a predicate while it is being enumerated (logical update view)'
    technique = 'model-based (stateful) property testing: generated schedules of suspended enumerations and modifications vs. a logical-update-view model'
    rule = ('(a) schedules on one engine: facts d/1 are set up, 1-3 enumerations (query d(X) / d(k), or retract(d(X)) / '
            'retract(d(k))) are opened and stepped at generated points while asserta/assertz/retract/retractall on d/1 '
            'run in between (via YP.query builtins, YP.assert_fact, or a second suspended retract), then every open '
            'enumeration is run to its end and the database read back; (b) compiled clauses "t(X) :- d(X), mods.., '
            '[fail]" and the classic idioms (drain loop, counter update loop, copy loop, self-duplicating loop, two '
            'nested retracts) with generated sizes. Observations (every answer, every stop, final database, '
            'termination via step budget) compared with reference R under the logical update view. Non-trivial = the '
            'same history gives a different observation sequence under an immediate-update semantics (second '
            'reference mode), i.e. a modification really interfered with a suspended enumeration; distinct = SHA-1 of '
            'the operation list.')
    assumptions = ['CPython 3.12 of /venv', 'reference R with logical update view (conformance corpus has both directions)',
                   'termination is decided by a step budget of 10x the reference + 500 calls (60000 per history)']
    cases = {'quick': 6000, 'thorough': 80000}
    genome = {'quick': 200, 'thorough': 300}
    ref_steps = 3000

    def decode(self, src):
        case = self.decode_d1(src)
        shape = src.n(6)
        if shape in (4, 5):
            # the same schedule on a predicate without arguments (d) or with two arguments (d(T,T)) instead of d/1
            def m(t):
                if isinstance(t, (list, tuple)) and len(t) == 3 and t[0] == 'f' and t[1] == 'd' and len(t[2]) == 1:
                    return ('a', 'd') if shape == 4 else ('f', 'd', (m(t[2][0]), m(t[2][0])))
                if isinstance(t, tuple):
                    return tuple(m(x) for x in t)
                if isinstance(t, list):
                    return [m(x) for x in t]
                return t
            case = {'ops': [m(op) for op in case['ops']]}
        return case

    def decode_d1(self, src):
        ops = [['engine', E]]
        nfacts = 1 + src.n(4) if src.n(4) else 8 + src.n(6)        # sometimes more than eight facts (with duplicates)
        for _ in range(nfacts):
            ops.append(['assert', E, d(src.pick(K)), True])
        mode = src.n(4)
        if mode == 3:
            # compiled idioms / bodies
            name = src.pick(sorted(IDIOMS))
            clauses = list(IDIOMS[name])
            if name == 'counter':
                ops.append(['assert', E, ('f', 'c', (('a', 'z'),)), True])
                if src.n(2):
                    ops.append(['assert', E, ('f', 'c', (('a', 'y'),)), True])
            goal = clauses[0][0]
            ops.append(['load', E, clauses, True, 'ok'])
            ops.append(['run', E, goal, 40])
            ops.append(['db', E])
            return {'ops': ops}
        if mode == 2:
            enum = call('d', X) if src.n(3) else call('retract', d(X))
            mods = [('call', gmod(src, X)) for _ in range(1 + src.n(3))]
            tail = [('fail',)] if src.n(2) else []
            body = conj(*([enum] + mods + tail)) if (mods or tail) else enum
            clauses = [(('f', 't', (X,)), body), (('f', 't', (('a', 'done'),)), ('true',))]
            ops.append(['load', E, clauses, True, 'ok'])
            ops.append(['run', E, ('f', 't', (('v', 'Q'),)), 40])
            ops.append(['db', E])
            return {'ops': ops}
        # Python-level schedule
        open_q = []
        qid = 0
        for _ in range(1 + src.n(3)):
            qid += 1
            k = src.n(4)
            t = X if k < 3 else src.pick(K)
            g = d(t) if src.n(2) == 0 else ('f', 'retract', (d(t),))
            ops.append(['open', E, qid, g])
            open_q.append(qid)
            if src.n(2):
                ops.append(['step', qid])
        for _ in range(2 + src.n(10)):
            k = src.n(5)
            if k < 2 and open_q:
                ops.append(['step', src.pick(open_q)])
            elif k == 2:
                ops.append(['assert', E, d(src.pick(K)), src.n(2) == 0])
            elif k == 3 and len(open_q) < 3 and src.n(2):
                qid += 1
                ops.append(['open', E, qid, ('f', 'retract', (d(('v', 'Z')),))])
                open_q.append(qid)
                ops.append(['step', qid])
            else:
                ops.append(['run', E, gmod(src), 10])
        for q in open_q:
            for _ in range(8):
                ops.append(['step', q])
            ops.append(['close', q])
        ops.append(['db', E])
        return {'ops': ops}

    def classify(self, case, ops, robs, ref):
        n2, robs2, iobs2, failure2, ref2 = (None,) * 5
        r2 = H.RefWorld(300, immediate=True)
        obs2 = []
        try:
            for op in ops:
                obs2.append(H.jn(r2.do(op)))
        except H.Stop:
            obs2.append('stopped')
        except Exception:    # noqa
            obs2.append('error')
        classes = set()
        kinds = {op[0] for op in ops}
        classes.add('compiled-body' if 'load' in kinds else 'python-schedule')
        for op in ops:
            if op[0] == 'open' and tt(op[3])[1] == 'retract':
                classes.add('suspended-retract')
            if op[0] == 'open' and tt(op[3])[1] == 'd':
                classes.add('suspended-query')
        nt = obs2 != robs
        if nt:
            classes.add('immediate-update-would-differ')
        return nt, classes


PROP = C14()

"""C18 - compilation is a deterministic function of the source text."""
import os
import io
import sys
import json
import glob
import atexit
import hashlib
import threading
import subprocess
from ..runner import Prop, OK, DISCARD, FAIL, HarnessError, VERIF
from .. import gen
from .. import impl

CFG = gen.with_cfg(control=frozenset(['cut', ';', 'ite', '->', 'not']), meta=True, library=True, max_clauses=6, min_clauses=2, max_body=6)
SEEDS = ['0', '1', '2', '3', '4242', 'random']
# "in another process": the workers also differ in what a process inherits besides the hash seed - the encoding of the
# standard streams and the locale, the optimisation level of the interpreter, the working directory and the time zone
WORKER_ENV = [{},
              {'PYTHONIOENCODING': 'ascii', 'LC_ALL': 'C', 'LANG': 'C', 'PYTHONUTF8': '0', 'PYTHONCOERCECLOCALE': '0'},
              {'PYTHONOPTIMIZE': '1'},
              {'PYTHONIOENCODING': 'latin-1', 'TZ': 'Pacific/Kiritimati', 'VERIF_WORKER_CWD': 'scratch'},
              {'PYTHONOPTIMIZE': '2', 'PYTHONIOENCODING': 'utf-16'},
              {}]
WORKER_DESCR = ['hashseed=%s %s' % (s, ' '.join('%s=%s' % kv for kv in sorted(e.items()))) for s, e in zip(SEEDS, WORKER_ENV)]
_workers = {}


def workers():
    pid = os.getpid()
    if _workers.get('pid') != pid:
        _workers.clear()
        _workers['pid'] = pid
        _workers['procs'] = []
        for s in SEEDS:
            extra = dict(WORKER_ENV[len(_workers['procs'])])
            env = dict(os.environ, PYTHONHASHSEED=s, PYTHONDONTWRITEBYTECODE='1')
            cwd = None
            if extra.pop('VERIF_WORKER_CWD', None):
                import tempfile
                cwd = tempfile.mkdtemp(prefix='verif-c18-cwd-')
            env.update(extra)
            # the wire format is ASCII (JSON with escapes in, hex digests out), whatever encoding the worker's streams have
            p = subprocess.Popen([sys.executable, os.path.join(VERIF, 'harness', 'compile_worker.py')], stdin=subprocess.PIPE,
                                 stdout=subprocess.PIPE, stderr=subprocess.DEVNULL, env=env, cwd=cwd)
            _workers['procs'].append(p)
        atexit.register(stop_workers)
    return _workers['procs']


def stop_workers():
    for p in _workers.get('procs', []):
        try:
            p.stdin.close()
            p.wait(timeout=5)
        except Exception:      # noqa
            p.kill()
    _workers.clear()


def ask(p, text, debug_filename=False):
    p.stdin.write((json.dumps({'text': text, 'debug_filename': debug_filename}) + '\n').encode('ascii'))
    p.stdin.flush()
    r = p.stdout.readline().decode('ascii', 'replace').strip()
    if not r:
        raise HarnessError('compile worker died')
    return r


def ask_cli(p, texts):
    p.stdin.write((json.dumps({'cli': texts}) + '\n').encode('ascii'))
    p.stdin.flush()
    r = p.stdout.readline().decode('ascii', 'replace').strip()
    if not r:
        raise HarnessError('compile worker died')
    return r


def file_hash(path, text):
    """compile_prolog_from_file of `text` written to `path` (rewritten in place, modification time kept)"""
    with open(path, 'w', encoding='utf8', newline='') as f:
        f.write(text)
    os.utime(path, ns=(1700000000 * 10 ** 9, 1700000000 * 10 ** 9))
    try:
        code = impl.compiler.compile_prolog_from_file(path)
        return hashlib.sha256(code.encode('utf8', 'backslashreplace')).hexdigest()
    except BaseException as e:      # noqa
        return 'EXC:' + type(e).__name__


def local(text, debug=False, debug_filename=False, from_file=False):
    class Ctx(impl.compiler.CompilerContext):       # options as a user would make them: derived from the library's class
        pass
    if debug_filename:
        Ctx.debug_filename = True
    if from_file:
        import tempfile
        fd, path = tempfile.mkstemp(prefix='verif-c18-', suffix='.prolog')
        try:
            with os.fdopen(fd, 'w', encoding='utf8', newline='') as f:
                f.write(text)
            try:
                code = impl.compiler.compile_prolog_from_file(path)          # default options, as a user would
                return hashlib.sha256(code.encode('utf8', 'backslashreplace')).hexdigest()
            except BaseException as e:      # noqa
                return 'EXC:' + type(e).__name__
        finally:
            os.unlink(path)
    if debug:
        Ctx.debug_parser = True
        Ctx.debug_generator = True
        Ctx.debug_filename = True
        Ctx.outf = io.StringIO()
    try:
        code = impl.compile_text(text, Ctx)
        return hashlib.sha256(code.encode('utf8', 'backslashreplace')).hexdigest()
    except BaseException as e:      # noqa
        return 'EXC:' + type(e).__name__


class C18(Prop):
    id = 'C18'
    title = 'Compilation is a deterministic function of the source text'
    technique = 'metamorphic property-based testing (Hypothesis): same text => same bytes across processes with different PYTHONHASHSEED and across in-process compilation histories; sampled thread interleavings'
    rule = ('program A (several predicates, many fresh variables per clause, _, several if-then-else / negation labels), '
            'a program B derived from A (A\'s clauses behind an extra if-then-else clause, reversed, or a subset - the same '
            'clause text at another label / variable offset), and an unrelated program C (sometimes malformed, sometimes '
            'sometimes with atoms outside ASCII, sometimes compiled with all debug options, sometimes failing inside the clause compiler, sometimes compiled from a '
            'file with default options). In-process order: A, B, C, A, A with debug_filename. One case in five: the texts are also the source files of one command-line run (-o) in every worker, whose exit status and output file must be the same in all of them. Oracles: the second compilation of A is '
            'byte-identical to the first; six persistent worker processes started with PYTHONHASHSEED 0, 1, 2, 3, 4242 and '
            'random and with different inherited settings (standard streams in ASCII / Latin-1 / UTF-16 with the C locale, python -O and -OO, another working directory and time zone), each with a DIFFERENT compilation history (even workers are only ever asked for A-texts, odd ones for '
            'B-texts), return the same SHA-256 as the in-process compilations of A and of B. Once per run: every .prolog '
            'file of the repository under all workers, and pairs of compilations interleaved on two threads vs. solo. '
            'Non-trivial = A has a clause with >= 2 fresh variables, >= 2 _ or >= 2 if-then-else/negation; distinct = '
            'SHA-1 of A + B + C.')
    assumptions = ['CPython 3.12 of /venv', 'SHA-256 collisions are ignored', 'thread interleavings are sampled']
    cases = {'quick': 1200, 'thorough': 25000}
    genome = {'quick': 500, 'thorough': 500}

    def decode(self, src):
        preds, clauses = gen.gen_program(src, CFG)
        a = gen.program_text(clauses, src)
        k = src.n(4)
        extra = [(('f', 'zz', (('v', 'E1'), ('v', 'E2'))), (';', ('->', ('call', ('f', 'q', (('v', 'E1'),))), ('call', ('f', '=', (('v', 'E2'), ('v', 'E3'))))), ('not', ('call', ('f', 'r', (('v', 'E4'),))))))]
        if k == 0:
            bcl = extra + list(clauses)
        elif k == 1:
            bcl = list(reversed(clauses))
        elif k == 2:
            bcl = list(clauses[1:]) + extra
        else:
            bcl = list(clauses) + extra + list(clauses[:1])
        b = gen.program_text(bcl)
        a_plain = gen.program_text(clauses)
        if src.n(2):
            a = a_plain          # identical clause text in A and B (layout included)
        p2, c2 = gen.gen_program(src, CFG)
        c = gen.program_text(c2)
        cmode = src.pick(['ok', 'ok', 'malformed', 'debug', 'too-large', 'internal-error', 'from-file', 'capital-heads'])
        if cmode == 'capital-heads':
            # predicates with capitalised quoted names: the generated functions are called like variables could be
            import re
            names = [n for n in dict.fromkeys(re.findall(r"(?<![A-Za-z0-9_'])[A-Z_][A-Za-z0-9_]*", a)) if n != '_']
            heads = []
            for n in names[:6] + ['Var_0', 'X_1', 'Point_2']:
                m = re.match(r'^(.+)_(\d)$', n)
                if m:
                    k = int(m.group(2))
                    heads.append("'%s'%s.\n" % (m.group(1), '(' + ', '.join('a' * 1 for _ in range(k)) + ')' if k else ''))
            c = ''.join(heads) + c
        if cmode == 'internal-error':
            # fails INSIDE the clause compiler (name/arity term, numeral as functor name), using A's variable names
            import re
            names = [n for n in dict.fromkeys(re.findall(r"(?<![A-Za-z0-9_'])[A-Z_][A-Za-z0-9_]*", a)) if n != '_'] + ['V0', 'V1', 'V2', 'V3']
            nm = (names * 4)[:4] if src.n(4) else ['V0', 'V1', 'V2', 'V3']
            c += src.pick(['k(%s) :- %s = [app/3, %s], q(%s).\n', 'k(%s, %s) :- q(%s), r(1(%s)).\n', 'k(%s) :- %s = [a/1|%s], q(%s).\n']) % tuple(nm)
        if cmode == 'malformed':
            c += 'oops( .\n'
        elif cmode == 'too-large':
            c += 'big :- ' + ', '.join('g(X%d)' % i for i in range(25)) + '.\n'
        extra = src.n(7)
        if extra == 6:
            # atoms outside ASCII (and outside Latin-1): what is written for them must not depend on the process
            add = src.pick(["book('五輪書', 'é').\n", "city('Zürich').\ncity('Kraków').\n", "sym('→', '\\\\', 'ß').\n", "greet('Привет', X) :- X = 'мир'.\n"])
            a, b = a + add, add + b
            if src.n(2):
                c = add + c
        elif extra == 4:
            # predicate names that differ only in case, or only in quoting / a trailing digit: any ordering or grouping
            # of the output by a derived key meets a tie here
            twins = src.pick([('nextTo', 'nextto'), ("'Foo'", 'foo'), ('aB', 'ab', "'Ab'", "'AB'"), ('p_1', 'p', "'P'"), ('q1', "'Q1'", 'q_1')])
            add = ''.join('%s(%s).\n' % (n, ', '.join('abc'[j] for j in range(1 + i % 2))) for i, n in enumerate(twins))
            add += ''.join('%s(X, Y, Z) :- %s(X), %s(Y), Z = X.\n' % (n, twins[0], twins[-1]) for n in twins[:2])
            a, b = a + add, add + b
        elif extra == 5:
            # long lists with and without variables (sudoku rows, lookup tables): more than 8 elements
            n = 9 + src.n(8)
            row = 'row([%s]).\n' % ', '.join('C%d' % i for i in range(n))
            tbl = 'tbl([%s]).\n' % ', '.join('k%d' % i for i in range(n + 1))
            mixed = 'mix([%s|T], T).\n' % ', '.join(('M%d' % i) if i % 3 else 'x' for i in range(n))
            a = a + tbl + (row if src.n(2) else '')
            b = b + row + tbl
            c = src.pick([row, mixed, tbl + row]) + c
        case = {'a': a, 'b': b, 'c': c, 'cmode': cmode}
        if src.n(5) == 0:
            case['cli'] = True      # additionally: A, B, C (and A again) as the source files of one command-line run
        return case

    def case_key(self, case):
        return case['a'] + '\x00' + case['b'] + '\x00' + case['c']

    def sample_view(self, case):
        return {'A': case['a'], 'B_derived_from_A': case['b'][:400], 'C_mode': case['cmode']}

    def shrink_candidates(self, case):
        for key in ('a', 'b'):
            lines = case[key].split('\n')
            for i in range(len(lines)):
                yield dict(case, **{key: '\n'.join(lines[:i] + lines[i + 1:])})
        yield dict(case, c='')

    def decide(self, case):
        a, b, c = case['a'], case['b'], case['c']
        h_a1 = local(a)
        h_b = local(b)
        local(c, debug=(case['cmode'] == 'debug'), from_file=(case['cmode'] == 'from-file'))
        h_a2 = local(a)
        h_a3 = local(a, debug_filename=True)
        detail = {'A': a, 'B': b, 'C_mode': case['cmode']}
        if h_a1 != h_a2:
            return FAIL('same-process:second-compilation-differs', dict(detail, first=h_a1[:16], second=h_a2[:16]))
        if len(a) % 4 == 0:
            # ... and on another day: the clock of this process is moved 1 and 400 days ahead for one compilation
            import time
            real = time.time
            for days in (1, 400):
                time.time = lambda d=days: real() + d * 86400.0
                try:
                    h_later = local(a)
                    h_later_dbg = local(a, debug_filename=True)
                finally:
                    time.time = real
                if h_later != h_a1 or h_later_dbg != h_a3:
                    return FAIL('output-depends-on-the-date', dict(detail, days_ahead=days))
        if case['cmode'] == 'from-file':
            # one path, rewritten with a text of the same length (two constants exchanged): the result is that of the text
            import re
            import tempfile
            a2 = re.sub(r'\b([ab])\b', lambda m: 'b' if m.group(1) == 'a' else 'a', a)
            if a2 != a and len(a2.encode('utf8')) == len(a.encode('utf8')):
                path = os.path.join(tempfile.gettempdir(), 'verif-c18-samepath-%d.prolog' % os.getpid())
                try:
                    got = [file_hash(path, a), file_hash(path, a2), file_hash(path, a)]
                finally:
                    if os.path.exists(path):
                        os.unlink(path)
                want = [h_a1, local(a2), h_a1]
                if got != want:
                    return FAIL('file-result-depends-on-earlier-content-of-the-path', dict(detail, A2=a2, got=[g[:16] for g in got], want=[w[:16] for w in want]))
        ws = workers()
        for wi in (0, 1, 5):          # hash seeds 0 (as in this process), 1 and random
            r = ask(ws[wi], a, debug_filename=True)
            if r != h_a3:
                return FAIL('other-process-differs:A-with-debug_filename', dict(detail, worker_process=WORKER_DESCR[wi], in_process=h_a3[:16], worker=r[:16]))
        for i, p in enumerate(ws):
            text, h, which = (a, h_a1, 'A') if i % 2 == 0 else (b, h_b, 'B')
            r = ask(p, text)
            if r != h:
                kind = 'hash-seed-or-process' if SEEDS[i] != '0' else 'compilation-history'
                return FAIL('other-process-differs:' + which, dict(detail, worker_process=WORKER_DESCR[i], in_process=h[:16], worker=r[:16], suspected=kind))
        cli_class = []
        if case.get('cli'):
            texts = [a, b, c, a] if len(a) % 2 else [b, a, c]
            rs = [ask_cli(p, texts) for p in ws]
            if any(r.startswith('EXC:') for r in rs):
                raise HarnessError('command-line run in a compile worker failed: %r' % rs)
            if len(set(rs)) != 1:
                return FAIL('command-line-output-differs-between-processes', dict(detail, sources='A B C A' if len(a) % 2 else 'B A C', results=dict(zip(WORKER_DESCR, (r[:24] for r in rs)))))
            cli_class = ['command-line:%d-sources' % len(texts)]
        import re
        nt = False
        classes = ['C:' + case['cmode']] + cli_class
        if h_a1.startswith('EXC'):
            classes.append('A-refused:' + h_a1[4:])
        else:
            for line in a.split('.\n'):
                vs = set(re.findall(r'\b[A-Z_][A-Za-z0-9_]*\b', line))
                if len(vs) >= 2 or line.count('->') + line.count('\\+') >= 2:
                    nt = True
            classes.append('A-accepted')
        return OK(nt, classes)

    def extra_checks(self, tier, seed):
        out = []
        ws = workers()
        files = sorted(glob.glob(os.path.join(impl.REPO, 'compiler', 'test', '*.prolog')) + glob.glob(os.path.join(impl.REPO, 'tests', 'data', '*.prolog'))
                       + glob.glob(os.path.join(impl.REPO, 'examples', '**', '*.prolog'), recursive=True))
        for fn in files:
            try:
                text = open(fn, encoding='utf8').read()
            except Exception:      # noqa
                continue
            h = local(text)
            case = {'a': text, 'b': '', 'c': '', 'cmode': 'repository-file:' + os.path.relpath(fn, impl.REPO)}
            bad = [WORKER_DESCR[i] for i, p in enumerate(ws) if ask(p, text) != h]
            if bad:
                out.append((case, FAIL('other-process-differs:repository-file', {'file': fn, 'hashseeds': bad})))
            else:
                out.append((case, OK(True, ['repository-file'])))
        # two compilations interleaved on two threads vs. solo
        from ..gen import Src
        n = 10 if tier == 'quick' else 100
        for r in range(n):
            data = hashlib.sha256(('%d/%d/c18threads' % (seed, r)).encode()).digest() * 16
            src = Src(data)
            texts = [gen.program_text(gen.gen_program(src, CFG)[1]) for _ in range(2)]
            solo = [local(t) for t in texts]
            res = [None, None]
            barrier = threading.Barrier(2)

            def work(i):
                sys.setrecursionlimit(20000)
                barrier.wait()
                for _ in range(3):
                    res[i] = local(texts[i])
            old = sys.getswitchinterval()
            sys.setswitchinterval(1e-6)
            try:
                threading.stack_size(64 * 1024 * 1024)
                ths = [threading.Thread(target=work, args=(i,)) for i in range(2)]
                for t in ths:
                    t.start()
                for t in ths:
                    t.join()
            finally:
                sys.setswitchinterval(old)
                threading.stack_size(512 * 1024 * 1024)
            case = {'a': texts[0], 'b': texts[1], 'c': '', 'cmode': 'threads'}
            if res != solo:
                out.append((case, FAIL('threads:interleaved-compilation-differs-from-solo', {'A': texts[0], 'B': texts[1]})))
            else:
                out.append((case, OK(True, ['threads'])))
        stop_workers()
        return out


PROP = C18()

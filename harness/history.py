"""Histories: sequences of API operations executed on a reference world (R as executable model: dict of fact
lists + list of definitions per key, logical update view) and on the implementation; the observation sequences
must be equal.  The harness owns the schedule: interleaving is the order of the operations.

Operations (JSON-able lists):
  ['engine', e]                                  create engine e
  ['load', e, clauses, overwrite, mode]          compile+load clauses; mode 'ok' | 'syntax-error' | 'runtime-error'
  ['assert', e, term, append]                    YP.assert_fact
  ['register', e, name, style, arity, rows, yields]   register_function; style 'inferred' | 'explicit' | 'explicit-optional' (a parameter with a default beyond the arity) | 'variadic'
  ['clear', e]
  ['open', e, qid, goal]                         create a query generator (not advanced)
  ['step', qid]                                  next() on it -> answer | 'stop'
  ['close', qid]                                 close()
  ['drop', qid]                                  del + gc.collect()
  ['run', e, goal, limit]                        open + enumerate up to limit answers + close
  ['db', e]                                      read back every fact predicate with all-variables queries
"""
import gc
import sys
from .terms import tt, canon, resolve, Budget, Unspecified, term_vars, group_clauses
from .refint import Interp
from . import impl
from . import gen

DB_KEYS = [('p', 0), ('p', 1), ('p', 2), ('q', 1), ('flag', 0), ('d', 1), ('d', 2), ('e', 0), ('c', 1)]


class FreshnessError(Exception):
    pass


class Stop(Exception):
    """the reference could not decide the rest of the history (budget / unspecified): compare the prefix"""


class RefWorld:
    def __init__(self, max_steps=4000, immediate=False):
        self.eng = {}
        self.q = {}
        self.max_steps = max_steps
        self.immediate = immediate
        self.keys = {}
        self.stacks = {}
        self.atoms = set()

    def interp(self, e):
        return self.eng[e]

    def do(self, op):
        k = op[0]
        try:
            return getattr(self, 'op_' + k)(*op[1:])
        except Budget:
            raise Stop('budget')
        except Unspecified:
            raise Stop('unspecified')
        except RecursionError:
            raise Stop('budget')

    def op_engine(self, e):
        self.eng[e] = Interp({}, {}, self.max_steps, 60, True, self.immediate)
        self.keys[e] = set()
        return 'ok'

    def op_load(self, e, clauses, overwrite, mode):
        if mode != 'ok':
            return 'raised'
        it = self.eng[e]
        for key, cl in group_clauses(tt(clauses)).items():
            d = ('clauses', list(cl))
            if not overwrite and key not in it.program and key in BUILTIN_KEYS:
                it.program[key] = [('builtin', None), d]      # appended to the engine's own definition
            elif overwrite or key not in it.program:
                it.program[key] = [d]
            else:
                it.program[key] = it.program[key] + [d]
        return 'ok'

    def op_assert(self, e, term, append):
        t = tt(term)
        self.eng[e].assert_fact(t, append)
        self.keys[e].add(self.eng[e].fact_key(t))
        return 'ok'

    def op_register(self, e, name, style, arity, rows, yields):
        it = self.eng[e]
        rows = [tuple(r) for r in tt(rows)]
        if style == 'variadic':
            it.variadic[name] = ('rows', rows)
        else:
            it.program[(name, arity)] = [('rows', rows)]
        return 'ok'

    def op_clear(self, e):
        old = self.eng.get(e)
        if old is not None:
            # the SAME engine object goes on: a generator that was created but not yet started resolves against the
            # cleared engine when it is started, and a retract that is suspended finds its facts erased
            for fs in old.facts.values():
                for f in fs:
                    f.erased = True
            old.facts.clear()
            old.program.clear()
            old.variadic.clear()
            self.keys[e] = set()
        else:
            self.op_engine(e)
        self.atoms = {x for x in self.atoms if x[0] != e}      # "clears all defined atoms"
        return 'ok'

    def op_atom(self, e, name):
        # same object as this engine's earlier atom of that name; never an object of another engine
        known = (e, name) in self.atoms
        self.atoms.add((e, name))
        return ['atom', known, False]

    # --- API-level bindings shared between operations (C13/C15): a stack of active unifications
    def _subst(self, e):
        from .terms import unify
        s = {}
        for uid, a, b in self.stacks.setdefault(e, []):
            s2 = unify(a, b, s)
            if s2 is None:
                raise Stop('inconsistent stack after non-LIFO release')
            s = s2
        return s

    def op_unify(self, e, uid, t1, t2):
        from .terms import unify
        a, b = tt(t1), tt(t2)
        s = self._subst(e)
        if unify(a, b, s) is None:
            return 'fail'
        self.stacks[e].append((uid, a, b))
        return 'ok'

    def op_assertv(self, e, term, append):
        t = resolve(tt(term), self._subst(e))
        self.eng[e].assert_fact(t, append)
        self.keys[e].add(self.eng[e].fact_key(t))
        return 'ok'

    def op_release(self, e, uid):
        self.stacks[e] = [x for x in self.stacks.setdefault(e, []) if x[0] != uid]
        return 'ok'

    def op_value(self, e, term):
        return ['value', canon(resolve(tt(term), self._subst(e)))]

    def op_open(self, e, qid, goal):
        g = tt(goal)
        it = self.eng[e]
        self.q[qid] = (it.call(g, {}, 0), g, e)
        return 'ok'

    def op_step(self, qid):
        if qid not in self.q:
            return 'no-such-query'
        gen_, g, e = self.q[qid]
        try:
            s = next(gen_)
        except StopIteration:
            return 'stop'
        self._note_keys(e)
        return ['answer', canon(resolve(g, s))]

    def _note_keys(self, e):
        self.keys[e] |= set(self.eng[e].facts.keys())

    def op_close(self, qid):
        if qid in self.q:
            self.q[qid][0].close()
            del self.q[qid]
        return 'ok'

    op_drop = op_close

    def op_run(self, e, goal, limit):
        g = tt(goal)
        it = self.eng[e]
        out = []
        gen_ = it.call(g, {}, 0)
        try:
            for s in gen_:
                out.append(canon(resolve(g, s)))
                if len(out) >= limit:
                    break
        finally:
            gen_.close()
        self._note_keys(e)
        return ['answers', out]

    def op_db(self, e):
        self._note_keys(e)
        return ['db', self.eng[e].db()]


class ImplWorld:
    def __init__(self, budget=60000):
        self.eng = {}
        self.q = {}
        self.budget = budget
        self.shared = {}
        self.unis = {}
        self.atoms = {}
        self.track_fresh = False
        self.fresh_seen = {}

    def do(self, op, keys=()):
        k = op[0]
        if k == 'db':
            return self.op_db(op[1], keys)
        return getattr(self, 'op_' + k)(*op[1:])

    def op_engine(self, e):
        self.eng[e] = impl.BudgetYP(self.budget)
        return 'ok'

    def op_load(self, e, clauses, overwrite, mode):
        text = gen.program_text(tt(clauses))
        if mode == 'syntax-error':
            text += 'oops( .\n'
        try:
            code = impl.compile_text(text)
        except Exception:    # noqa
            if mode == 'syntax-error':
                return 'raised'
            raise
        if mode == 'syntax-error':
            return 'compiled-malformed-text'
        if mode == 'runtime-error':
            code += '\nundefined_name_at_module_level\n'
        try:
            self._load(e, code, overwrite)
        except NameError:
            if mode == 'runtime-error':
                return 'raised'
            raise
        return 'ok'

    def _load(self, e, code, overwrite):
        self.eng[e].load_script_from_string(code, overwrite=overwrite)

    def B(self, e):
        """the object whose atom / functor / variable methods build the terms that the Python side hands to engine e"""
        return self.eng[e]

    def op_assert(self, e, term, append):
        yp = self.eng[e]
        t = tt(term)
        vmap = {}
        args = [impl.to_engine(self.B(e), a, vmap) for a in (t[2] if t[0] == 'f' else ())]
        yp.assert_fact(self.B(e).atom(t[1]), args, append)
        return 'ok'

    def op_register(self, e, name, style, arity, rows, yields):
        yp = self.eng[e]
        rows = [tuple(r) for r in tt(rows)]
        fn = make_pyfunc(yp, rows, arity, style, yields, None)
        if style == 'inferred':
            yp.register_function(name, fn)
        elif style in ('explicit', 'explicit-optional'):
            yp.register_function(name, fn, arity=arity)
        else:
            # "a negative integer": any of them means variable arity
            yp.register_function(name, fn, arity=variadic_arity(name, arity))
        return 'ok'

    def op_clear(self, e):
        self.eng[e].clear()
        self.atoms = {k: v for k, v in self.atoms.items() if k[0] != e}
        return 'ok'

    def op_atom(self, e, name):
        a = self.eng[e].atom(name)
        prev = self.atoms.get((e, name))
        same = prev is a if prev is not None else False
        foreign = any(o is a for (e2, n2), o in self.atoms.items() if e2 != e)
        self.atoms[(e, name)] = a
        return ['atom', same, foreign]

    def _shared(self, e, t):
        return impl.to_engine(self.B(e), tt(t), self.shared.setdefault(e, {}))

    def op_unify(self, e, uid, t1, t2):
        g = iter(impl.engine.unify(self._shared(e, t1), self._shared(e, t2)))
        try:
            next(g)
        except StopIteration:
            return 'fail'
        self.unis[(e, uid)] = g
        return 'ok'

    def op_assertv(self, e, term, append):
        yp = self.eng[e]
        t = tt(term)
        args = [self._shared(e, a) for a in (t[2] if t[0] == 'f' else ())]
        yp.assert_fact(self.B(e).atom(t[1]), args, append)
        return 'ok'

    def op_release(self, e, uid):
        g = self.unis.pop((e, uid), None)
        if g is not None:
            g.close()
        return 'ok'

    def op_value(self, e, term):
        seen = {}
        return ['value', impl.reify(self._shared(e, term), seen)]

    def op_open(self, e, qid, goal):
        yp = self.eng[e]
        g = tt(goal)
        name, args = impl.goal_parts(g)
        vmap = {}
        eargs = [impl.to_engine(self.B(e), a, vmap) for a in args]
        self.q[qid] = [yp.query(name, eargs), g, eargs]
        return 'ok'

    def op_step(self, qid):
        if qid not in self.q:
            return 'no-such-query'
        gen_, g, eargs = self.q[qid]
        try:
            next(gen_)
        except StopIteration:
            return 'stop'
        seen = {}
        if g[0] == 'a':
            return ['answer', g]
        return ['answer', ('f', g[1], tuple(impl.reify(a, seen) for a in eargs))]

    def op_close(self, qid):
        if qid in self.q:
            self.q[qid][0].close()
            del self.q[qid]
        return 'ok'

    def op_drop(self, qid):
        if qid in self.q:
            del self.q[qid]
            gc.collect()
        return 'ok'

    def op_run(self, e, goal, limit):
        if not self.track_fresh:
            st, out = impl.run_query(self.eng[e], tt(goal), limit, builder=self.B(e))
            return ['answers', out]
        # like run_query, but remembers every unbound Variable OBJECT that shows up in an answer: variables of a stored
        # fact are "fresh at every use", so an object seen in an earlier use must never come back (C13)
        yp = self.eng[e]
        q = tt(goal)
        name, args = impl.goal_parts(q)
        vmap = {}
        eargs = [impl.to_engine(self.B(e), a, vmap) for a in args]
        own = {id(v) for v in vmap.values()}
        out = []
        now = {}
        g = yp.query(name, eargs)
        try:
            for _ in g:
                seen = {}
                out.append(q if q[0] == 'a' else ('f', name, tuple(impl.reify(a, seen) for a in eargs)))
                stack = [impl.get_value(a) for a in eargs]
                while stack:
                    x = stack.pop()
                    if isinstance(x, impl.Variable):
                        if id(x) not in own:
                            now[id(x)] = x
                    elif isinstance(x, impl.Functor):
                        stack.extend(x._args)
                if len(out) >= limit:
                    break
        finally:
            g.close()
        reused = [i for i in now if i in self.fresh_seen]
        self.fresh_seen.update(now)        # keeps the objects alive, so ids cannot be recycled
        if reused:
            raise FreshnessError('%d unbound variable object(s) of an earlier use of the database came back in the answers of %s' % (len(reused), name))
        return ['answers', out]

    def op_db(self, e, keys):
        return ['db', impl.read_db(self.eng[e], keys)]


def variadic_arity(name, arity):
    """the negative number a variadic registration passes (documented: any negative integer)"""
    return (-1, -2, -1, -7)[(len(name) + arity) % 4]


def make_pyfunc(yp, rows, arity, style, yields, log):
    """a Python predicate that unifies its arguments with each row (fresh variables for non-ground rows) and
    yields yields[i % len] per solution"""
    from yldprolog.engine import unify_arrays

    def solutions(args):
        if log is not None:
            log.append(list(args))
        i = 0
        for row in rows:
            if len(row) != len(args):
                continue
            vmap = {}
            vals = [impl.to_engine(yp, r, vmap) for r in row]
            for _ in unify_arrays(list(args), vals):
                yield yields[i % len(yields)] if yields else False
                i += 1
    if style == 'variadic':
        def f(*args):
            return solutions(args)
        return f
    # fixed signature with exactly `arity` parameters (arity inferred from it)
    names = ['a%d' % i for i in range(arity)]
    params = list(names)
    if style == 'explicit-optional':
        params.append('trace=None')         # one optional parameter more than the arity it is registered with
    src = 'def f(%s):\n    return solutions([%s])\n' % (', '.join(params), ', '.join(names))
    ns = {'solutions': solutions, '__name__': 'userpreds'}      # like functions of an ordinary user module
    exec(src, ns)
    return ns['f']


def jn(x):
    import json
    return json.loads(json.dumps(x, default=str))


class _CachingBuilder:
    """builds terms for one engine, but keeps every atom object it once got (and can get atoms from another source)"""

    def __init__(self, yp, make_atom):
        self.yp = yp
        self.cache = {}
        self.make_atom = make_atom
        self.variable = yp.variable
        self.functor = yp.functor

    def atom(self, name):
        if name not in self.cache:
            self.cache[name] = self.make_atom(name)
        return self.cache[name]


class CachedAtomsImplWorld(ImplWorld):
    """the Python side keeps the atom objects it once obtained (module-level constants such as TOM = yp.atom('tom')) and
    goes on using them after clear() - or builds them with the public Atom class, as examples/xpath does; atoms are
    compared by name, so that is as good as asking the engine again.  The engine itself is not touched."""
    own_atoms = False

    def op_engine(self, e):
        r = super().op_engine(e)
        yp = self.eng[e]
        if not hasattr(self, 'builders'):
            self.builders = {}
        self.builders[e] = _CachingBuilder(yp, impl.Atom if self.own_atoms else yp.atom)
        for n in ('a', 'b', 'c', '[]', 'p', 'q', 'flag', 'z', 'eq', 'ne'):
            self.builders[e].atom(n)                  # the constants exist from the start (before any clear())
        return r

    def B(self, e):
        return self.builders[e]


class OwnAtomsImplWorld(CachedAtomsImplWorld):
    own_atoms = True


class FileLoadImplWorld(ImplWorld):
    """scripts reach the engine through load_script_from_file: every engine has ONE script file that is rewritten for
    each load, always with the same modification time (a deployment that unpacks archives, or several loads within
    one clock tick)"""
    MTIME_NS = 1700000000 * 10 ** 9

    shared_path = False      # True: every engine of the history loads from the SAME path (one rule file, several engines)

    def _load(self, e, code, overwrite):
        import os, tempfile
        if not hasattr(self, '_dir'):
            self._dir = tempfile.mkdtemp(prefix='verif-loadfile-')
        path = os.path.join(self._dir, 'rules_%s.py' % ('shared' if self.shared_path else e))
        with open(path, 'w', encoding='utf8') as f:
            f.write(code)
        os.utime(path, ns=(self.MTIME_NS, self.MTIME_NS))
        self.eng[e].load_script_from_file(path, overwrite=overwrite)

    def shutdown(self):
        import shutil
        if hasattr(self, '_dir'):
            shutil.rmtree(self._dir, ignore_errors=True)


class SharedFileLoadImplWorld(FileLoadImplWorld):
    shared_path = True


BUILTIN_KEYS = {('=', 2), ('\\=', 2), ('findall', 3), ('once', 1), ('assertz', 1), ('asserta', 1), ('retract', 1), ('retractall', 1)}


class Blocked(Exception):
    """ThreadedImplWorld: an operation of one engine did not finish until ANOTHER engine's suspended queries were closed"""


class Inconclusive(Exception):
    """ThreadedImplWorld: an operation did not finish within the (very generous) time limit, and closing the other
    engines' queries did not release it either: nothing is concluded"""


class ThreadedImplWorld(ImplWorld):
    """every engine is used by a thread of its own; the harness owns the schedule: exactly one operation runs at a
    time (lock step), in the order of the history.  Observations must be those of the single-threaded run."""
    WAIT = 30.0

    def __init__(self, budget=60000):
        super().__init__(budget)
        self.workers = {}
        self.qeng = {}

    def _worker(self, e):
        import threading, queue
        if e not in self.workers:
            inq, outq = queue.Queue(), queue.Queue()

            def loop():
                sys.setrecursionlimit(40000)
                while True:
                    job = inq.get()
                    if job is None:
                        return
                    try:
                        outq.put(('ok', job()))
                    except BaseException as ex:     # noqa  - handed to the caller, which re-raises it
                        outq.put(('exc', ex))
            old = threading.stack_size(256 * 1024 * 1024)
            try:
                th = threading.Thread(target=loop, daemon=True)
                th.start()
            finally:
                threading.stack_size(old)
            self.workers[e] = (th, inq, outq)
        return self.workers[e]

    def _engine_of(self, op):
        if op[0] in ('step', 'close', 'drop'):
            return self.qeng.get(op[1])
        return op[1]

    def do(self, op, keys=()):
        import queue
        e = self._engine_of(op)
        if e is None:
            return ImplWorld.do(self, op, keys)
        if op[0] == 'open':
            self.qeng[op[2]] = e
        th, inq, outq = self._worker(e)
        inq.put(lambda: ImplWorld.do(self, op, keys))
        try:
            kind, val = outq.get(timeout=self.WAIT)
        except queue.Empty:
            # release the queries that OTHER engines hold suspended, each on its own thread
            released = []
            for qid, qe in list(self.qeng.items()):
                if qe != e and qid in self.q:
                    t2, in2, out2 = self._worker(qe)
                    in2.put(lambda qid=qid: ImplWorld.op_close(self, qid))
                    try:
                        out2.get(timeout=self.WAIT)
                        released.append((qe, qid))
                    except queue.Empty:
                        pass
            try:
                kind, val = outq.get(timeout=self.WAIT)
            except queue.Empty:
                raise Inconclusive('operation %r of engine %s still running after %.0f s' % (op[0], e, 2 * self.WAIT))
            raise Blocked('operation %r of engine %s did not finish within %.0f s, and finished as soon as the suspended '
                          'queries %s of the other engines were closed' % (op[0], e, self.WAIT, released))
        if kind == 'exc':
            raise val
        return val

    def shutdown(self):
        for th, inq, outq in self.workers.values():
            inq.put(None)


def run_history(ops, ref_steps=4000, immediate=False, skip_undecided=False, track_fresh=False, impl_world=None):
    """returns (n_ops_decided, reference observations, impl observations, failure or None, refworld)"""
    ref = RefWorld(ref_steps, immediate)
    im = (impl_world or ImplWorld)(10 * ref_steps + 500)
    try:
        return _run_history(ops, ref, im, skip_undecided, track_fresh)
    finally:
        if hasattr(im, 'shutdown'):
            im.shutdown()


def _run_history(ops, ref, im, skip_undecided, track_fresh):
    im.track_fresh = track_fresh
    robs, iobs = [], []
    for i, op in enumerate(ops):
        for it in ref.eng.values():
            it.steps = 0          # budgets are per operation
        for yp in im.eng.values():
            yp._n = 0
        try:
            r = ref.do(op)
        except Stop:
            if skip_undecided and op[0] in ('run', 'step'):
                # side-effect-free query that the reference cannot decide (unbounded / unspecified): skip it on
                # both sides and go on with the history
                if op[0] == 'step':
                    ref.op_close(op[1])
                    im.do(['close', op[1]])
                robs.append('skipped')
                iobs.append('skipped')
                continue
            return i, robs, iobs, None, ref
        keys = sorted(set(ref.keys.get(op[1], ())) | set(DB_KEYS)) if op[0] == 'db' else ()
        try:
            o = im.do(op, keys)
        except Blocked as e:
            return i, robs, iobs, ('blocked-by-suspended-query-of-another-engine', i, op, r, str(e)), ref
        except Inconclusive:
            return i, robs, iobs, None, ref
        except impl.ImplWork:
            return i, robs, iobs, None, ref          # too expensive (term copying): the prefix decided so far stands
        except impl.ImplBudget:
            return i, robs, iobs, ('impl-does-not-terminate', i, op, r, None), ref
        except FreshnessError as e:
            return i, robs, iobs, ('fact-variable-reused-across-uses', i, op, r, str(e)), ref
        except RecursionError as e:
            return i, robs, iobs, ('exception:RecursionError', i, op, r, str(e)[:100]), ref
        except Exception as e:     # noqa
            return i, robs, iobs, ('exception:' + impl.exc_signature(e), i, op, r, '%s: %s' % (type(e).__name__, str(e)[:200])), ref
        r, o = jn(r), jn(o)
        robs.append(r)
        iobs.append(o)
        if r != o:
            kind = 'observation-differs:%s' % op[0]
            if isinstance(r, list) and isinstance(o, list) and r[0] == 'answers' and o[0] == 'answers':
                from .props.common import compare_answers
                kind = 'run:' + (compare_answers('done', r[1], 'done', o[1]) or 'differs')
            elif op[0] == 'step':
                kind = 'step:expected-%s-got-%s' % (r if isinstance(r, str) else r[0], o if isinstance(o, str) else o[0])
                if kind == 'step:expected-answer-got-answer':
                    kind = 'step:answer-differs'
            return i, robs, iobs, (kind, i, op, r, o), ref
    return len(ops), robs, iobs, None, ref


def show_obs(o):
    from .terms import show
    if isinstance(o, list) and o and o[0] == 'answer':
        return 'answer ' + show(tt(o[1]))
    if isinstance(o, list) and o and o[0] == 'answers':
        return 'answers ' + ', '.join(show(tt(a)) for a in o[1])
    if isinstance(o, list) and o and o[0] == 'db':
        return 'db ' + '; '.join('%s/%s: %s' % (k[0], k[1], ', '.join(show(tt(f)) for f in fs)) for k, fs in o[1])
    return str(o)


def show_op(op):
    from .terms import show
    k = op[0]
    if k in ('open',):
        return 'open %s q%s %s' % (op[1], op[2], show(tt(op[3])))
    if k == 'run':
        return 'run %s %s' % (op[1], show(tt(op[2])))
    if k == 'assert':
        return '%s.assert_fact(%s, append=%s)' % (op[1], show(tt(op[2])), op[3])
    if k == 'load':
        return 'load %s overwrite=%s mode=%s: %s' % (op[1], op[3], op[4], gen.program_text(tt(op[2])).replace('\n', ' '))
    if k == 'unify':
        return 'unify#%s %s = %s (kept open)' % (op[2], show(tt(op[3])), show(tt(op[4])))
    if k == 'assertv':
        return '%s.assert_fact(%s, append=%s) [shared variables]' % (op[1], show(tt(op[2])), op[3])
    if k == 'value':
        return 'value %s' % show(tt(op[2]))
    if k == 'register':
        return 'register %s %s/%s style=%s rows=%s yields=%s' % (op[1], op[2], op[4], op[3], [[show(x) for x in r] for r in tt(op[5])], op[6])
    return ' '.join(str(x) for x in op)

"""Persistent compile worker (C18): started with its own PYTHONHASHSEED; reads JSON lines {"text": ..., "debug": bool}
and answers with the SHA-256 of the compiler output (or EXC:<type>)."""
import sys
import os
import io
import json
import hashlib

sys.path.insert(0, os.path.join(os.environ.get('VERIF_REPO', '/repo'), 'src'))
sys.dont_write_bytecode = True
sys.setrecursionlimit(20000)
import yldprolog.compiler as compiler     # noqa: E402


class Ctx:
    debug_filename = ''
    debug_parser = False
    debug_generator = False
    current_source_file = ''
    outf = None


def cli(texts):
    """the command line with the texts as source files (in this order) and -o: SHA-256 of exit status + output file"""
    import tempfile
    import shutil
    from click.testing import CliRunner
    d = tempfile.mkdtemp(prefix='verif-c18cli-')
    try:
        names = []
        for i, t in enumerate(texts):
            names.append(os.path.join(d, 'src%d.prolog' % i))
            with open(names[-1], 'w', encoding='utf8', newline='') as f:
                f.write(t)
        outp = os.path.join(d, 'out.py')
        old_err = sys.stderr
        try:
            r = CliRunner().invoke(compiler.main, names + ['-o', outp])
        finally:
            sys.stderr = old_err
        written = b''
        if os.path.exists(outp):
            with open(outp, 'rb') as f:
                written = f.read()
        return 'CLI:%d:%s' % (r.exit_code, hashlib.sha256(written).hexdigest())
    except BaseException as e:      # noqa
        return 'EXC:' + type(e).__name__
    finally:
        shutil.rmtree(d, ignore_errors=True)


def main():
    # the protocol runs on the binary streams in ASCII; sys.stdout / sys.stdin keep whatever encoding this process inherited
    out = sys.stdout.buffer
    err = io.StringIO()
    sys.stderr = err
    for line in sys.stdin.buffer:
        req = json.loads(line.decode('ascii'))
        if 'cli' in req:
            out.write((cli(req['cli']) + '\n').encode('ascii'))
            out.flush()
            continue
        try:
            class C2(compiler.CompilerContext):
                pass
            if req.get('debug_filename'):
                C2.debug_filename = True
            code = compiler.compile_prolog_from_string(req['text'], C2)
            res = hashlib.sha256(code.encode('utf8', 'backslashreplace')).hexdigest()
        except BaseException as e:      # noqa
            res = 'EXC:' + type(e).__name__
        out.write((res + '\n').encode('ascii'))
        out.flush()


if __name__ == '__main__':
    main()

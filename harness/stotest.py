"""Self-test of the STO detector (terms.sto): on equations for which it says NSTO, the Herbrand algorithm with
occurs check is run under 12 visiting orders / orientations drawn from a fixed-seed PRNG stream (this is a test of
the oracle, not of the code under test; its inputs do not depend on VERIF_SEED) - none may reach the occurs check."""
import random
from .terms import sto, walk, mklist


def _gterm(rnd, nv, depth=0):
    x = rnd.random()
    if x < 0.35:
        return ('v', rnd.randrange(nv))
    if x < 0.55 or depth >= 3:
        return ('a', rnd.choice('abc'))
    if x < 0.85:
        name, n = rnd.choice([('f', 1), ('g', 2), ('f', 2), ('h', 3)])
        return ('f', name, tuple(_gterm(rnd, nv, depth + 1) for _ in range(n)))
    items = [_gterm(rnd, nv, depth + 1) for _ in range(rnd.randrange(3))]
    if items and rnd.random() < 0.3:
        return mklist(items, ('v', rnd.randrange(nv)))
    return mklist(items)


def herbrand_random(a, b, rnd):
    s = {}
    work = [(a, b)]

    def occ(v, t):
        t = walk(t, s)
        if t == v:
            return True
        return t[0] == 'f' and any(occ(v, x) for x in t[2])
    while work:
        i = rnd.randrange(len(work))
        x, y = work.pop(i)
        if rnd.random() < 0.5:
            x, y = y, x
        x = walk(x, s)
        y = walk(y, s)
        if x == y:
            continue
        if x[0] == 'v':
            if occ(x, y):
                return 'occurs'
            s[x] = y
        elif y[0] == 'v':
            if occ(y, x):
                return 'occurs'
            s[y] = x
        elif x[0] == 'f' and y[0] == 'f' and x[1] == y[1] and len(x[2]) == len(y[2]):
            work.extend(zip(x[2], y[2]))
        else:
            return 'clash'
    return 'ok'


def sto_selftest(n, seed=12345):
    rnd = random.Random(seed)
    fn = nsto = stoc = over = 0
    for _ in range(n):
        nv = rnd.randint(1, 4)
        a, b = _gterm(rnd, nv), _gterm(rnd, nv)
        d = sto(a, b, {})
        outcomes = {herbrand_random(a, b, rnd) for _ in range(12)}
        if d:
            stoc += 1
            over += ('occurs' not in outcomes)
        else:
            nsto += 1
            if 'occurs' in outcomes:
                fn += 1
    return {'sto_detector_equations': n, 'nsto_verdicts': nsto, 'sto_verdicts': stoc, 'false_negatives': fn,
            'conservative_sto_verdicts': over}

"""Self-test of the STO detector (terms.sto): on equations for which it says NSTO, the Herbrand algorithm with
occurs check is run under 24 visiting orders / orientations drawn from a fixed-seed PRNG stream (this is a test of
the oracle, not of the code under test; its inputs do not depend on VERIF_SEED) - none may reach the occurs check."""
import random
from .terms import sto, walk, mklist


def _gterm(rnd, nv, depth=0):
    x = rnd.random()
    if x < 0.35:
        return ('v', rnd.randrange(nv))
    if x < 0.55 or depth >= 3:
        return ('a', rnd.choice('abc'))
    if x < 0.85:
        name, n = rnd.choice([('f', 1), ('g', 2), ('f', 2), ('h', 3)])
        return ('f', name, tuple(_gterm(rnd, nv, depth + 1) for _ in range(n)))
    items = [_gterm(rnd, nv, depth + 1) for _ in range(rnd.randrange(3))]
    if items and rnd.random() < 0.3:
        return mklist(items, ('v', rnd.randrange(nv)))
    return mklist(items)


def _variant(rnd, t, nv):
    """t with sub-terms replaced by a variable, a variable wrapped in a functor, or a constant"""
    x = rnd.random()
    if x < 0.2:
        return ('v', rnd.randrange(nv))
    if x < 0.3:
        return ('f', 'f', (('v', rnd.randrange(nv)),))
    if x < 0.4:
        return ('a', rnd.choice('ab'))
    if t[0] == 'f':
        return ('f', t[1], tuple(_variant(rnd, a, nv) if rnd.random() < 0.6 else a for a in t[2]))
    return t


def herbrand_random(a, b, rnd):
    s = {}
    work = [(a, b)]

    def occ(v, t):
        t = walk(t, s)
        if t == v:
            return True
        return t[0] == 'f' and any(occ(v, x) for x in t[2])
    while work:
        i = rnd.randrange(len(work))
        x, y = work.pop(i)
        if rnd.random() < 0.5:
            x, y = y, x
        x = walk(x, s)
        y = walk(y, s)
        if x == y:
            continue
        if x[0] == 'v':
            if occ(x, y):
                return 'occurs'
            s[x] = y
        elif y[0] == 'v':
            if occ(y, x):
                return 'occurs'
            s[y] = x
        elif x[0] == 'f' and y[0] == 'f' and x[1] == y[1] and len(x[2]) == len(y[2]):
            work.extend(zip(x[2], y[2]))
        else:
            return 'clash'
    return 'ok'


def _V(i):
    return ('v', i)


def _A(n):
    return ('a', n)


def _F(n, *a):
    return ('f', n, tuple(a))


# equations on which an earlier version of the detector was wrong (must be STO)
MUST_BE_STO = [
    # thorough C06, seed 1: s(Q,Q,Q) = s('.'(f(V0),a), [V0|V1], '.'(a,a))
    (_F('s', _V(9), _V(9), _V(9)),
     _F('s', _F('.', _F('f', _V(0)), _A('a')), _F('.', _V(0), _V(1)), _F('.', _A('a'), _A('a')))),
]
# and equations that must stay NSTO (the detector must not turn into "always STO")
MUST_BE_NSTO = [
    (mklist([_A('k')]), mklist([_A('k'), _A('m')])),
    (_F('f', _V(0), _V(1)), _F('f', _V(1), _A('a'))),
    (_F('s', _V(9), _V(9)), _F('s', _F('g', _V(0), _A('a')), _F('g', _A('b'), _V(1)))),
]


def sto_selftest(n, seed=12345):
    rnd = random.Random(seed)
    fn = nsto = stoc = over = 0
    for a, b in MUST_BE_STO:
        if not sto(a, b, {}):
            fn += 1
    for a, b in MUST_BE_NSTO:
        if sto(a, b, {}):
            over += 1000000
    for i in range(n):
        nv = rnd.randint(1, 4)
        if i % 3 == 0:
            # one variable against several structures: f(X,X,X) = f(t1,t2,t3) (the shape that needs pairwise decomposition)
            k = rnd.randint(2, 3)
            v = ('v', rnd.randrange(nv))
            a = ('f', 'h', tuple(v if rnd.random() < 0.8 else _gterm(rnd, nv, 1) for _ in range(k)))
            base = _gterm(rnd, nv, 1)
            b = ('f', 'h', tuple(_variant(rnd, base, nv) for _ in range(k)))
        elif i % 6 == 1:
            # directed: the same skeleton three times, the hole filled with f(X), X and a third term
            x = ('v', rnd.randrange(nv))
            v = ('v', nv)
            holes = [('f', 'f', (x,)), x, _gterm(rnd, nv, 2)]
            rnd.shuffle(holes)
            other = [_gterm(rnd, nv, 2) for _ in range(3)]

            mk = rnd.randrange(3)
            args = []
            for h, o in zip(holes, other):
                args.append([('f', 'g', (h, o)), ('f', 'g', (o, h)), ('f', '.', (h, o))][mk])
            a = ('f', 'h', (v, v, v))
            b = ('f', 'h', tuple(args))
        else:
            a, b = _gterm(rnd, nv), _gterm(rnd, nv)
        d = sto(a, b, {})
        outcomes = {herbrand_random(a, b, rnd) for _ in range(24)}
        if d:
            stoc += 1
            over += ('occurs' not in outcomes)
        else:
            nsto += 1
            if 'occurs' in outcomes:
                fn += 1
    return {'sto_detector_equations': n, 'nsto_verdicts': nsto, 'sto_verdicts': stoc, 'false_negatives': fn,
            'conservative_sto_verdicts': over}

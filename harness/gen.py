"""Generators: deterministic decoders over a byte genome drawn by Hypothesis (st.binary).  `Src.n(k)` hands out
`next byte mod k` and 0 once the genome is exhausted; decoders are arranged so that 0 is always the simplest
choice.  Every random choice is therefore Hypothesis' (replayable, seedable, shrinkable: shorter genomes and
smaller bytes give simpler programs).  The same decoders serve as data-provider layer of the atheris targets."""
from .terms import mklist, NIL, term_vars, body_vars, body_map_terms, PREC


class Src:
    def __init__(self, data):
        self.d = data
        self.i = 0

    def n(self, k):
        if k <= 1:
            return 0
        if self.i >= len(self.d):
            return 0
        v = self.d[self.i]
        self.i += 1
        if k > 256 and self.i < len(self.d):
            v = v * 256 + self.d[self.i]
            self.i += 1
        return v % k

    def rare(self, num, den):
        """True with probability num/den; False when the genome is exhausted"""
        return self.n(den) >= den - num

    def pick(self, seq):
        return seq[self.n(len(seq))]

    @property
    def exhausted(self):
        return self.i >= len(self.d)

    def mark_structure_done(self):
        """called by decoders before layout-only choices: exhaustion after this point only simplifies layout"""
        self.struct_exhausted = self.i >= len(self.d)


# ------------------------------------------------------------------ configuration
class Cfg:
    atoms = ['a', 'b', 'c']
    odd_atoms = ['hello world', 'A', "it's", 'é', '[]', 'x_1', 'aB', '0', 'a.b', '']
    functors = [('f', 1), ('g', 2), ('f', 2), ('h', 3)]
    preds = [('p', 1), ('p', 2), ('q', 1), ('q', 2), ('r', 0), ('r', 1), ('s', 3), ('t', 1)]
    ints = [0, 1, 2, 7, 10, 30, 100, 1050]
    max_term_depth = 2
    control = frozenset()          # subset of {'cut', ';', 'ite', '->', 'not'}
    eq_goals = True                # = and \= goals
    truefail = True
    undefined_calls = True         # occasional call to a predicate the program does not define
    meta = False                   # call/N, once, findall goals
    db = False                     # assert/retract goals
    max_body = 5
    min_clauses = 2
    max_clauses = 8
    library = True                 # mix in classic recursive predicates
    odd = True                     # odd atoms now and then
    anon = True                    # anonymous variables `_` (each a distinct variable)


def with_cfg(**kw):
    return type('CfgX', (Cfg,), kw)


# ------------------------------------------------------------------ terms
def variant_term(src, t, vars_, cfg, depth=0):
    k = src.n(8)
    if k == 0 and vars_:
        return src.pick(vars_)
    if t[0] == 'f':
        if (k == 1 or (k == 3 and depth == 0 and len(t[2]) > 1)) and vars_:
            v = src.pick(vars_)
            return ('f', t[1], tuple(v for _ in t[2]))                 # one variable in every argument position
        return ('f', t[1], tuple(variant_term(src, a, vars_, cfg, depth + 1) if src.n(2) else a for a in t[2]))
    if k == 2:
        return gen_term(src, vars_, cfg, cfg.max_term_depth)
    return t


def anon_var(src):
    """a fresh variable that occurs once and is always printed as `_`"""
    src.anon = getattr(src, 'anon', 0) + 1
    return ('v', '_%d' % src.anon)


def gen_term(src, vars_, cfg, depth=0):
    k = src.n(12)
    if k == 7 and cfg.anon and src.n(2) == 1:
        return anon_var(src)
    if k < 3:
        if cfg.odd and src.rare(1, 16):
            return ('a', src.pick(cfg.odd_atoms))
        return ('a', src.pick(cfg.atoms))
    if k < 7 and vars_:
        return src.pick(vars_)
    if k < 8:
        return ('i', src.pick(cfg.ints))
    if depth >= cfg.max_term_depth:
        return ('a', cfg.atoms[0])
    if k < 10:
        name, n = src.pick(cfg.functors)
        return ('f', name, tuple(gen_term(src, vars_, cfg, depth + 1) for _ in range(n)))
    items = [gen_term(src, vars_, cfg, depth + 1) for _ in range(src.n(3))]
    if items:
        k = src.n(8)
        if k == 7 and vars_:
            return mklist(items, src.pick(vars_))
        if k == 6 and cfg.anon:
            return mklist(items, anon_var(src))
    return mklist(items)


def _inst_body(src, t, vars_, cfg, depth=0):
    if t[0] == 'v':
        if vars_ and src.n(3) != 2:
            return src.pick(vars_)
        return gen_term(src, vars_, cfg, max(depth, cfg.max_term_depth - 1))
    if t[0] == 'f':
        if vars_ and src.rare(1, 10):
            return src.pick(vars_)
        return ('f', t[1], tuple(_inst_body(src, a, vars_, cfg, depth + 1) for a in t[2]))
    return t


def gen_callable(src, vars_, preds, cfg):
    """a goal TERM for one of the predicates (or an undefined one)"""
    heads = getattr(src, 'heads', None)
    if heads and src.n(2) == 1:
        # derived from a clause head of the program: each variable occurrence replaced independently, so the
        # goal (nearly) matches that clause
        h = src.pick(heads)
        if h[0] == 'a':
            return h
        return ('f', h[1], tuple(_inst_body(src, a, vars_, cfg) for a in h[2]))
    if cfg.undefined_calls and src.rare(1, 20):
        name, n = src.pick([('undef', 1), ('undef', 0), ('p', 4), ('zz', 2)])
    else:
        name, n = src.pick(preds)
    if n == 0:
        return ('a', name)
    return ('f', name, tuple(gen_term(src, vars_, cfg) for _ in range(n)))


def gen_goal(src, vars_, preds, cfg):
    k = src.n(20)
    if cfg.eq_goals and k in (16, 17):
        a = gen_term(src, vars_, cfg)
        if a[0] != 'f' and src.n(2):
            # compound operands are where unifiability is not decided position by position
            name, n = src.pick(cfg.functors)
            a = ('f', name, tuple(gen_term(src, vars_, cfg, 1) for _ in range(n)))
        # the second operand is often a variant of the first (same functor, sub-terms replaced by variables or
        # other terms, a variable repeated): near-misses are where = and \\= can go wrong
        b = variant_term(src, a, vars_, cfg) if src.n(2) else gen_term(src, vars_, cfg)
        if src.n(2):
            a, b = b, a
        return ('call', ('f', '=' if k == 16 else '\\=', (a, b)))
    if cfg.meta and k in (12, 13, 14, 15):
        m = gen_meta(src, vars_, preds, cfg)
        if src.n(3) == 2:
            # the goal arrives in a variable bound at run time (possibly through a chain): G = goal, call(G)
            src.gv = getattr(src, 'gv', 0) + 1
            g = ('v', 'G%d' % src.gv)
            idx = 1 if m[1] == 'findall' else 0
            inner = m[2][idx]
            m2 = ('f', m[1], m[2][:idx] + (g,) + m[2][idx + 1:])
            if src.n(3) == 2:
                src.gv += 1
                g2 = ('v', 'G%d' % src.gv)
                if src.n(2):
                    # G is aliased to G2 first, G2 is bound afterwards: call(G) must look through the chain
                    return (',', ('call', ('f', '=', (g, g2))), (',', ('call', ('f', '=', (g2, inner))), ('call', m2)))
                return (',', ('call', ('f', '=', (g2, g))), (',', ('call', ('f', '=', (g2, inner))), ('call', m2)))
            return (',', ('call', ('f', '=', (g, inner))), ('call', m2))
        return ('call', m)
    if cfg.db and k in (9, 10, 11):
        return ('call', gen_dbgoal(src, vars_, preds, cfg))
    return ('call', gen_callable(src, vars_, preds, cfg))


def gen_template(src, vars_, goal, cfg):
    """findall template: mostly built from the goal's own variables, wrapped in 0-3 levels of structure"""
    gv = [v for v in term_vars(goal, []) if not (isinstance(v[1], str) and v[1].startswith('_'))]
    pool = gv or vars_
    if not pool or src.n(6) == 5:
        return gen_term(src, vars_, cfg)
    t = src.pick(pool)
    for _ in range(src.n(4)):
        k = src.n(5)
        if k == 0:
            t = ('f', 'f', (t,))
        elif k == 1:
            t = ('f', 'g', (('a', src.pick(cfg.atoms)), t))
        elif k == 2:
            t = mklist([('a', src.pick(cfg.atoms)), t])
        elif k == 3:
            t = ('f', 'g', (t, src.pick(pool)))
        else:
            t = mklist([t], NIL)
    return t


def gen_meta(src, vars_, preds, cfg, depth=0):
    """call/N, once/1, findall/3 with goals in every shape (inline compound, inline atom, nested meta)"""
    k = src.n(6)
    if depth < 2 and src.rare(1, 5):
        inner = gen_meta(src, vars_, preds, cfg, depth + 1)
    else:
        inner = gen_callable(src, vars_, preds, cfg)
    if k in (0, 1):
        # call/N: move the last m arguments of the goal into extra arguments
        if inner[0] == 'f' and src.n(2) == 1:
            m = 1 + src.n(min(2, len(inner[2])))
            keep, extra = inner[2][:-m], inner[2][-m:]
            g = ('f', inner[1], keep) if keep else ('a', inner[1])
            return ('f', 'call', (g,) + extra)
        return ('f', 'call', (inner,))
    if k == 2:
        return ('f', 'once', (inner,))
    if k in (3, 4):
        tmpl = gen_template(src, vars_, inner, cfg)
        bag = src.pick(vars_) if vars_ and src.n(4) != 3 else gen_term(src, vars_, cfg)
        return ('f', 'findall', (tmpl, inner, bag))
    return ('f', 'call', (inner,))


DBPREDS = [('d', 1), ('d', 2), ('e', 0), ('d', 1)]


def gen_dbgoal(src, vars_, preds, cfg):
    name, n = src.pick(DBPREDS)
    t = ('f', name, tuple(gen_term(src, vars_, cfg) for _ in range(n))) if n else ('a', name)
    op = src.pick(['assertz', 'asserta', 'retract', 'assertz', 'retractall', 'query', 'query'])
    if op == 'query':
        return t
    return ('f', op, (t,))


def gen_body(src, vars_, preds, size, cfg, cutok=True):
    if size <= 1:
        k = src.n(16)
        if cfg.truefail and k == 13:
            return ('true',)
        if cfg.truefail and k == 14:
            return ('fail',)
        if 'cut' in cfg.control and cutok and k in (15, 12):
            return ('cut',)
        return gen_goal(src, vars_, preds, cfg)
    c = cfg.control
    if size >= 4 and 'ite' in c and ';' in c and src.rare(1, 6):
        # shapes in which the syntactic role of '->' depends on its surroundings
        leaf = lambda ok=cutok: gen_body(src, vars_, preds, 1, cfg, ok)      # noqa: E731
        cond = lambda: gen_body(src, vars_, preds, 1, cfg, False)          # noqa: E731
        j = src.n(6)
        if j == 0:      # (C1 -> T1 ; ((C2 -> T2 ; E2) ; F)): an if-then-else that is NOT last in the else branch
            return (';', ('->', cond(), leaf()), (';', (';', ('->', cond(), leaf()), leaf()), leaf()))
        if j == 1:      # ((C -> T), true ; E): the trailing true keeps ';' from becoming the else of the if-then
            return (';', (',', ('->', cond(), leaf()), ('true',)), leaf())
        if j == 2:      # an if-then-else as condition of another one
            return (';', ('->', (';', ('->', cond(), cond()), cond()), leaf()), leaf())
        if j == 3:      # ((A ; (C -> T)) ; X)
            return (';', (';', leaf(), ('->', cond(), leaf())), leaf())
        if j == 4:      # (C -> T ; E), true ; F   and a continuation
            return (',', (';', (',', (';', ('->', cond(), leaf()), leaf()), ('true',)), leaf()), leaf())
        return (';', ('->', cond(), (';', ('->', cond(), leaf()), leaf())), (';', ('->', cond(), leaf()), leaf()))
    l = 1 + src.n(size - 1)
    k = src.n(12)
    if k >= 6 and k < 8 and ';' in c:
        return (';', gen_body(src, vars_, preds, l, cfg, cutok), gen_body(src, vars_, preds, size - l, cfg, cutok))
    if k >= 8 and k < 10 and 'ite' in c:
        return (';', ('->', gen_body(src, vars_, preds, max(1, l // 2), cfg, False),
                      gen_body(src, vars_, preds, max(1, l - l // 2), cfg, cutok)),
                gen_body(src, vars_, preds, size - l, cfg, cutok))
    if k == 10 and '->' in c:
        return ('->', gen_body(src, vars_, preds, l, cfg, False), gen_body(src, vars_, preds, size - l, cfg, cutok))
    if k == 11 and 'not' in c:
        return ('not', gen_body(src, vars_, preds, size - 1, cfg, False))
    return (',', gen_body(src, vars_, preds, l, cfg, cutok), gen_body(src, vars_, preds, size - l, cfg, cutok))


# ------------------------------------------------------------------ library of classic recursive predicates
def _v(n):
    return ('v', 'L%s' % n)


def _lp(h, t):
    return ('f', '.', (h, t))


LIBRARY = {
    'app': [(('f', 'app', (NIL, _v(1), _v(1))), ('true',)),
            (('f', 'app', (_lp(_v(1), _v(2)), _v(3), _lp(_v(1), _v(4)))), ('call', ('f', 'app', (_v(2), _v(3), _v(4)))))],
    'mem': [(('f', 'mem', (_v(1), _lp(_v(1), _v(2)))), ('true',)),
            (('f', 'mem', (_v(1), _lp(_v(2), _v(3)))), ('call', ('f', 'mem', (_v(1), _v(3)))))],
    'len': [(('f', 'len', (NIL, ('a', 'z'))), ('true',)),
            (('f', 'len', (_lp(_v(1), _v(2)), ('f', 's', (_v(3),)))), ('call', ('f', 'len', (_v(2), _v(3)))))],
    'rev': [(('f', 'rev', (NIL, _v(1), _v(1))), ('true',)),
            (('f', 'rev', (_lp(_v(1), _v(2)), _v(3), _v(4))), ('call', ('f', 'rev', (_v(2), _lp(_v(1), _v(3)), _v(4)))))],
    'sel': [(('f', 'sel', (_v(1), _lp(_v(1), _v(2)), _v(2))), ('true',)),
            (('f', 'sel', (_v(1), _lp(_v(2), _v(3)), _lp(_v(2), _v(4)))), ('call', ('f', 'sel', (_v(1), _v(3), _v(4)))))],
    'perm': [(('f', 'perm', (NIL, NIL)), ('true',)),
             (('f', 'perm', (_v(1), _lp(_v(2), _v(3)))), (',', ('call', ('f', 'sel', (_v(2), _v(1), _v(4)))),
                                                            ('call', ('f', 'perm', (_v(4), _v(3))))))],
    'nat': [(('f', 'nat', (('a', 'z'),)), ('true',)),
            (('f', 'nat', (('f', 's', (_v(1),)),)), ('call', ('f', 'nat', (_v(1),))))],
}
LIB_ARITY = {'app': 3, 'mem': 2, 'len': 2, 'rev': 3, 'sel': 3, 'perm': 2, 'nat': 1}
LIB_DEPS = {'perm': ['sel']}


def gen_list(src, vars_, cfg, maxlen=3):
    items = []
    for _ in range(src.n(maxlen + 1)):
        k = src.n(4)
        items.append(src.pick(vars_) if (k == 3 and vars_) else ('a', src.pick(cfg.atoms)) if k < 2 else ('i', src.pick(cfg.ints)))
    return mklist(items)


def gen_lib_call(src, name, vars_, cfg):
    """a call to a library predicate with arguments that make the search finite most of the time"""
    v = lambda: src.pick(vars_) if vars_ else ('a', 'a')   # noqa: E731
    if name == 'app':
        m = src.n(3)
        if m == 0:
            return ('f', 'app', (v(), v(), gen_list(src, vars_, cfg)))
        if m == 1:
            return ('f', 'app', (gen_list(src, vars_, cfg), gen_list(src, vars_, cfg), v()))
        return ('f', 'app', (gen_list(src, vars_, cfg), v(), gen_list(src, vars_, cfg)))
    if name == 'mem':
        return ('f', 'mem', (v() if src.n(2) == 0 else ('a', src.pick(cfg.atoms)), gen_list(src, vars_, cfg)))
    if name == 'len':
        return ('f', 'len', (gen_list(src, vars_, cfg, 4), v()))
    if name == 'rev':
        return ('f', 'rev', (gen_list(src, vars_, cfg, 4), NIL, v()))
    if name == 'sel':
        return ('f', 'sel', (v(), gen_list(src, vars_, cfg), v()))
    if name == 'perm':
        return ('f', 'perm', (gen_list(src, vars_, cfg), v()))
    if name == 'nat':
        n = ('a', 'z')
        for _ in range(src.n(4)):
            n = ('f', 's', (n,))
        return ('f', 'nat', (n,))
    raise ValueError(name)


# ------------------------------------------------------------------ programs and queries
def gen_head(src, name, n, vars_, cfg):
    if n == 0:
        return ('a', name)
    args = []
    shape = src.n(6)
    if shape == 5 and vars_:
        # "accessor" shape: the first clause variable alone at a fixed position, everything else ground - the
        # same variable name then recurs at the same argument position in several clauses of the predicate
        pos = (len(name) + n) % n
        return ('f', name, tuple(vars_[0] if i == pos else gen_term(src, [], cfg, 1) for i in range(n)))
    if shape == 4:
        # ground head: the clause's variables occur in the body only
        return ('f', name, tuple(gen_term(src, [], cfg, 1) for i in range(n)))
    for i in range(n):
        k = src.n(8)
        if k == 6 and vars_ and args:
            # repeated variable, possibly nested: p(X, f(X)) / p([X,X|T])
            v = src.pick(vars_)
            args.append(v if src.n(2) == 0 else ('f', 'f', (v,)))
        elif k == 7 and len(vars_) >= 2:
            args.append(mklist([vars_[0], vars_[0]] if src.n(2) else [vars_[0]], vars_[1]))
        elif k == 5 and cfg.anon:
            args.append(mklist([gen_term(src, vars_, cfg, 1)], anon_var(src)) if src.n(2) else anon_var(src))
        else:
            args.append(gen_term(src, vars_, cfg))
    return ('f', name, tuple(args))


def split_anon(src, head, body):
    """`_` is a new variable at every occurrence: a term copied inside a clause (the variant operand of =, a findall
    template taken from the goal) must not carry an anonymous variable of the original along - text and syntax tree
    would disagree.  Every occurrence of an anonymous variable becomes a variable of its own."""
    from .terms import body_map_terms
    seen = set()

    def m(t):
        if t[0] == 'v' and isinstance(t[1], str) and t[1].startswith('_'):
            if t in seen:
                return anon_var(src)
            seen.add(t)
            return t
        if t[0] == 'f':
            return ('f', t[1], tuple(m(a) for a in t[2]))
        return t
    return m(head), body_map_terms(body, m)


def gen_program(src, cfg):
    """returns (preds, clauses): preds = list of (name, arity) usable in queries, clauses = [(head, body)]"""
    pool = cfg.preds
    np_ = 2 + src.n(4)
    start = src.n(len(pool))
    preds = list(dict.fromkeys(pool[(start + i * 3) % len(pool)] for i in range(np_)))
    libs = []
    if cfg.library and src.n(2) == 1:
        for _ in range(1 + src.n(2)):
            nm = src.pick(sorted(LIBRARY))
            for d in LIB_DEPS.get(nm, []):
                if d not in libs:
                    libs.append(d)
            if nm not in libs:
                libs.append(nm)
    clauses = []
    ncl = cfg.min_clauses + src.n(cfg.max_clauses - cfg.min_clauses + 1)
    if src.n(4) == 3:
        # few predicates with many clauses each (clause interplay inside one generated function)
        preds = preds[:1 + src.n(2)]
        ncl = max(ncl, 4 + src.n(5))
    protos = []
    for _ in range(ncl):
        name, n = src.pick(preds)
        vars_ = [('v', i) for i in range(src.n(5))]
        protos.append((vars_, gen_head(src, name, n, vars_, cfg)))
    src.heads = [h for _, h in protos]
    for vars_, head in protos:
        if src.n(2) == 0:
            body = ('true',)
        else:
            body = gen_body(src, vars_, preds, 1 + src.n(cfg.max_body), cfg)
            if libs and src.n(3) == 2:
                body = (',', ('call', gen_lib_call(src, src.pick(libs), vars_, cfg)), body) if src.n(2) else \
                       (',', body, ('call', gen_lib_call(src, src.pick(libs), vars_, cfg)))
        clauses.append(split_anon(src, head, body))
    for nm in libs:
        clauses.extend(LIBRARY[nm])
        preds.append((nm, LIB_ARITY[nm]))
    if getattr(cfg, 'wide', True) and src.rare(1, 10):
        # a wide fact table (arity 10-12): constants in most columns, a variable or two
        n = 10 + src.n(3)
        for _ in range(2 + src.n(3)):
            wv = [('v', 'W0'), ('v', 'W1')]
            row = tuple(src.pick(wv) if src.rare(1, 8) else (('a', src.pick(cfg.atoms)) if src.n(2) else ('i', src.pick(cfg.ints))) for _ in range(n))
            clauses.append((('f', 'wide', row), ('true',)))
        preds.append(('wide', n))
    return preds, clauses


QVARS = [('v', 'Q0'), ('v', 'Q1'), ('v', 'Q2')]


def _instantiate(src, t, cfg, depth=0):
    """copy of a clause-head argument in which every variable OCCURRENCE is independently replaced by a query
    variable or a small term: the query then (nearly) matches the head"""
    if t[0] == 'v':
        k = src.n(4)
        if k == 0:
            return src.pick(QVARS)
        return gen_term(src, QVARS, cfg, max(depth, cfg.max_term_depth - 1))
    if t[0] == 'f':
        if src.rare(1, 12):
            return src.pick(QVARS)
        return ('f', t[1], tuple(_instantiate(src, a, cfg, depth + 1) for a in t[2]))
    return t


def gen_query(src, preds, cfg, clauses=None):
    if clauses and src.n(2) == 1:
        head = src.pick(clauses)[0]
        if head[0] == 'a':
            return head
        return ('f', head[1], tuple(_instantiate(src, a, cfg) for a in head[2]))
    name, n = src.pick(preds)
    if name in LIBRARY and src.n(4) != 3:
        return gen_lib_call(src, name, QVARS, cfg)
    if n == 0:
        return ('a', name)
    args = []
    for _ in range(n):
        if src.n(2) == 0:
            args.append(src.pick(QVARS))
        else:
            args.append(gen_term(src, QVARS, cfg))
    return ('f', name, tuple(args))


# ------------------------------------------------------------------ concrete syntax with layout choices
_SYM = set('=\\<>-+:;,.|/!')
_ALNUM = set('abcdefghijklmnopqrstuvwxyzABCDEFGHIJKLMNOPQRSTUVWXYZ0123456789_')
VAR_STYLES = [lambda i: 'V%d' % i, lambda i: 'XYZUVW'[i % 6] + ('' if i < 6 else str(i)), lambda i: '_v%d' % i,
              lambda i: 'Var_%d' % i, lambda i: '_G%d' % i, lambda i: 'ABCDE'[i % 5] * (1 + i // 5),
              lambda i: '_%d' % (i + 1),
              lambda i: (['True', 'None', 'ATOM_NIL', 'False', '__debug__', 'V_True', 'L1', 'Arg1', 'DoBreak', 'X1', '__builtins__', 'V_'] + ['W%d' % j for j in range(40)])[i]]
COMMENTS = ['% c\n', '%\n', "% it's ( [ . :- \n", '% é "\n']


def atom_tokens(name, src):
    import re
    if name == '[]':
        return ['[', ']'] if (src is None or src.n(8) != 7) else ["'[]'"]
    plain = re.fullmatch(r'[a-z][A-Za-z0-9_]*', name) and name not in ('true', 'fail')
    if plain and (src is None or src.n(8) != 7):
        return [name]
    return ["'" + name.replace("'", "\\'") + "'"]


def term_tokens(t, names, src):
    k = t[0]
    if k == 'v':
        return [names[t]]
    if k == 'a':
        return atom_tokens(t[1], src)
    if k == 'i':
        return [str(t[1])]
    if k == 'f':
        if t[1] == '.' and len(t[2]) == 2:
            items = []
            cur = t
            while cur[0] == 'f' and cur[1] == '.' and len(cur[2]) == 2:
                items.append(cur[2][0])
                cur = cur[2][1]
            if cur == NIL or cur[0] == 'v':
                out = ['[']
                for i, x in enumerate(items):
                    if i:
                        out.append(',')
                    out += term_tokens(x, names, src)
                if cur[0] == 'v':
                    out += ['|', names[cur]]
                return out + [']']
            # improper list with a non-variable tail: not expressible with brackets, print as '.'(H,T)
        if t[1] in ('=', '\\=') and len(t[2]) == 2:
            return ['('] + term_tokens(t[2][0], names, src) + [t[1]] + term_tokens(t[2][1], names, src) + [')']
        out = atom_tokens(t[1], None if t[1] == '[]' else src)
        if t[1] == '[]':
            out = ["'[]'"]
        out.append('(')
        for i, a in enumerate(t[2]):
            if i:
                out.append(',')
            out += term_tokens(a, names, src)
        return out + [')']
    raise ValueError(t)


def goal_tokens(t, names, src):
    if t[0] == 'f' and t[1] in ('=', '\\=') and len(t[2]) == 2:
        return term_tokens(t[2][0], names, src) + [t[1]] + term_tokens(t[2][1], names, src)
    return term_tokens(t, names, src)


def body_tokens(b, names, src, ctx=4, full=False):
    k = b[0]
    if k == 'true':
        return ['true']
    if k == 'fail':
        return ['fail']
    if k == 'cut':
        return ['!']
    if k == 'call':
        out = goal_tokens(b[1], names, src)
        if src is not None and src.rare(1, 24):
            out = ['('] + out + [')']          # redundant parentheses around a goal
        return out
    if k == 'not':
        return ['\\+'] + body_tokens(b[1], names, src, 0, full)
    p = PREC[k]
    op = {',': ',', ';': ';', '->': '->'}[k]
    if full:
        return ['('] + body_tokens(b[1], names, src, 0, True) + [op] + body_tokens(b[2], names, src, 0, True) + [')']
    out = body_tokens(b[1], names, src, p - 1) + [op] + body_tokens(b[2], names, src, p)
    if p > ctx or (src is not None and src.rare(1, 24)):
        out = ['('] + out + [')']
    return out


def clause_tokens(head, body, src, full=False):
    vs = term_vars(head, [])
    body_vars(body, vs)
    if src is None:
        style = VAR_STYLES[0]
    elif getattr(src, 'program_style', None) is not None:
        style = src.program_style                  # one naming style for the whole program (names recur across clauses)
    else:
        style = VAR_STYLES[src.n(len(VAR_STYLES))]
    names = {v: style(i) for i, v in enumerate(vs)}
    for v in vs:
        if isinstance(v[1], str) and v[1].startswith('_'):
            names[v] = '_'
    if src is not None and src.n(3) == 2:
        cnt = {}

        def count(t):
            if t[0] == 'v':
                cnt[t] = cnt.get(t, 0) + 1
            elif t[0] == 'f':
                for a in t[2]:
                    count(a)
            return t
        count(head)
        body_map_terms(body, count)
        for v, c in cnt.items():
            if c == 1:
                names[v] = '_'
    out = term_tokens(head, names, src)
    if body != ('true',) or (src is not None and src.rare(1, 16)):
        out += [':-'] + body_tokens(body, names, src, 4, full)
    return out + ['.']


def join_tokens(toks, src, heavy=True):
    """joins tokens with layout chosen by src: nothing where that is lexically safe, blank, newline, comment"""
    out = []
    prev = ''
    for t in toks:
        if prev:
            a, b = prev[-1], t[0]
            need = (a in _ALNUM and b in _ALNUM) or (a in _SYM and b in _SYM) or (a in _SYM and b == "'" and False)
            k = src.n(10) if src is not None else 1
            if not heavy and k >= 7:
                k = 1
            if k == 0 and not need:
                sep = ''
            elif k in (0, 1, 2, 3, 4, 5, 6):
                sep = ' '
            elif k == 7:
                sep = '\n  '
            elif k == 8:
                sep = ' ' + COMMENTS[src.n(len(COMMENTS))]
            else:
                sep = '  \t'
            out.append(sep)
        out.append(t)
        prev = t
    return ''.join(out)


def _plain_join(toks):
    s = ''
    for i, t in enumerate(toks):
        prev = toks[i - 1] if i else ''
        if i and t == '(' and (prev[-1] in _ALNUM or prev[-1] == "'"):
            pass
        elif i and t not in (',', ')', ']', '.', '|') and prev not in ('(', '[', '|', '\\+'):
            s += ' '
        s += t
    return s


def program_text(clauses, src=None, full=False):
    """concrete syntax of a list of clauses; with src, layout / quoting / variable naming / redundant
    parentheses are chosen by the genome; without, a plain canonical form is printed"""
    lines = []
    if src is not None:
        src.mark_structure_done()
        mode = src.n(4)          # 0, 1: naming/quoting choices only; 2: light layout; 3: heavy layout
        src.program_style = VAR_STYLES[src.n(len(VAR_STYLES))] if src.n(4) else None
    for h, b in clauses:
        toks = clause_tokens(h, b, src, full)
        if src is not None and mode < 2:
            lines.append(_plain_join(toks))
            continue
        if src is None:
            lines.append(_plain_join(toks))
        else:
            lines.append(join_tokens(toks, src, heavy=(mode == 3)))
    return '\n'.join(lines) + '\n'

"""Reference interpreter R: naive, substitution-passing Prolog with yldprolog's call-resolution rule.

Written for obviousness, not speed.  No destructive state except the fact database.
program : dict (name, arity) -> list of DEFINITIONS, each ('clauses', [(head, body), ...]) or ('rows', [row, ...])
          (rows = a foreign/Python predicate given as a table of argument tuples)
variadic: dict name -> definition (used only when there is no exact-arity entry); for 'rows' the value may be a
          callable arity -> rows
"""
import itertools
from .terms import (walk, resolve, unify, mklist, Budget, Unspecified, body_map_terms, canon, term_vars)


class Cell:
    __slots__ = ('flag',)

    def __init__(self):
        self.flag = False


class Fact:
    __slots__ = ('term', 'erased')

    def __init__(self, term):
        self.term = term
        self.erased = False


def as_program(clauses_or_prog):
    """accepts a list of (head, body) or a dict key->list of clauses; returns dict key -> [('clauses', [...])]"""
    prog = {}
    if isinstance(clauses_or_prog, dict):
        for key, v in clauses_or_prog.items():
            if v and isinstance(v[0], tuple) and v[0] and v[0][0] in ('clauses', 'rows'):
                prog[key] = list(v)
            else:
                prog[key] = [('clauses', list(v))]
        return prog
    for h, b in clauses_or_prog:
        key = (h[1], len(h[2]) if h[0] == 'f' else 0)
        if key not in prog:
            prog[key] = [('clauses', [])]
        prog[key][0][1].append((h, b))
    return prog


class Interp:
    def __init__(self, program, variadic=None, max_steps=20000, max_depth=60, findall_copy=True,
                 immediate_update=False):
        self.program = as_program(program)
        self.variadic = variadic or {}
        self.facts = {}
        self.counter = itertools.count(1000000)
        self.steps = 0
        self.max_steps = max_steps
        self.max_depth = max_depth
        self.maxdepth_seen = 0
        self.max_goal_size = 300
        self.findall_copy = findall_copy
        self.immediate_update = immediate_update   # second mode used only to classify C14 cases
        self.trace = []                             # resolved goal of every call of a watched key, in order (C20)
        self.watch = set()
        self.events = set()                         # coarse events for classification

    def fresh(self):
        return ('v', next(self.counter))

    def rename(self, t, m):
        if t[0] == 'v':
            if t not in m:
                m[t] = self.fresh()
            return m[t]
        if t[0] == 'f':
            return ('f', t[1], tuple(self.rename(a, m) for a in t[2]))
        return t

    # ------------------------------------------------------------------ control
    def solve(self, b, s, depth, cut):
        k = b[0]
        if k == 'true':
            yield s
        elif k == 'fail':
            return
        elif k == 'cut':
            self.events.add('cut-reached')
            yield s
            cut.flag = True     # set on backtracking INTO the cut: everything to its right is exhausted
        elif k == ',':
            for s1 in self.solve(b[1], s, depth, cut):
                yield from self.solve(b[2], s1, depth, cut)
                if cut.flag:
                    return
        elif k == ';':
            if b[1][0] == '->':
                yield from self.ite(b[1][1], b[1][2], b[2], s, depth, cut)
            else:
                yield from self.solve(b[1], s, depth, cut)
                if cut.flag:
                    return
                yield from self.solve(b[2], s, depth, cut)
        elif k == '->':
            yield from self.ite(b[1], b[2], ('fail',), s, depth, cut)
        elif k == 'not':
            for _ in self.solve(b[1], s, depth, Cell()):
                self.events.add('not-fails')
                return
            self.events.add('not-succeeds')
            yield s
        elif k == 'call':
            yield from self.call(b[1], s, depth)
        else:
            raise ValueError(b)

    def ite(self, c, t, e, s, depth, cut):
        for s1 in self.solve(c, s, depth, Cell()):
            self.events.add('ite-then')
            yield from self.solve(t, s1, depth, cut)
            return
        self.events.add('ite-else')
        yield from self.solve(e, s, depth, cut)

    # ------------------------------------------------------------------ calls
    def definition(self, d, goal, name, args, s, depth):
        kind, payload = d
        if kind == 'clauses':
            c = Cell()      # each definition has its own cut scope (C08)
            for head, body in payload:
                m = {}
                h = self.rename(head, m)
                s1 = unify(goal, h, s)
                if s1 is None:
                    continue
                bd = body_map_terms(body, lambda t: self.rename(t, m))
                yield from self.solve(bd, s1, depth + 1, c)
                if c.flag:
                    break
        elif kind == 'builtin':
            # the engine's own definition, first member of a definition list that a script extended (overwrite off)
            yield from self.builtin(name, args, s, depth)
        elif kind == 'rows':
            rows = payload(len(args)) if callable(payload) else payload
            self.events.add('foreign-called')
            for row in rows:
                if len(row) != len(args):
                    continue
                m = {}
                # one joint equation (like a clause head), so that the STO check is order-independent
                s1 = unify(goal, ('f', name, tuple(self.rename(r, m) for r in row)), s) if args else s
                if s1 is not None:
                    yield s1
        else:
            raise ValueError(kind)

    def call(self, goal, s, depth):
        self.steps += 1
        if self.steps > self.max_steps:
            raise Budget('steps')
        if depth > self.max_depth:
            raise Budget('depth')
        if depth > self.maxdepth_seen:
            self.maxdepth_seen = depth
        goal = walk(goal, s)
        if goal[0] == 'a':
            name, args = goal[1], ()
        elif goal[0] == 'f':
            name, args = goal[1], goal[2]
            # the engine copies terms as trees where this interpreter shares sub-terms: bound the TREE size of
            # every goal, so that the implementation is never asked to do exponentially more work than R
            resolve(goal, s, None, self.max_goal_size)
        else:
            raise Unspecified('non-callable goal')
        key = (name, len(args))
        watched = key in self.watch
        # 1. dynamic facts.  Logical update view: a started enumeration visits the facts as they were at call
        #    time, including ones erased meanwhile (only retract/1 skips erased facts).
        if self.immediate_update:
            i = 0
            while i < len(self.facts.get(key, ())):
                f = self.facts[key][i]
                i += 1
                s1 = unify(goal, self.rename(f.term, {}), s)
                if s1 is not None:
                    yield s1
        else:
            for f in list(self.facts.get(key, ())):
                s1 = unify(goal, self.rename(f.term, {}), s)
                if s1 is not None:
                    self.events.add('fact-answer')
                    yield s1
        # 2. definitions for exactly this arity, in load order; else the variadic registration; else builtins
        if key in self.program:
            for d in list(self.program[key]):
                if watched:
                    # recorded when the definition is entered, i.e. after the dynamic facts (C20 call order)
                    self.trace.append(canon(resolve(goal, s)))
                yield from self.definition(d, goal, name, args, s, depth)
        elif name in self.variadic:
            if name in self.watch:
                self.trace.append(canon(resolve(goal, s)))
            yield from self.definition(self.variadic[name], goal, name, args, s, depth)
        else:
            yield from self.builtin(name, args, s, depth)

    def add_args(self, g, extra, s):
        g = walk(g, s)
        if g[0] == 'a':
            return ('f', g[1], tuple(extra)) if extra else g
        if g[0] == 'f':
            return ('f', g[1], g[2] + tuple(extra))
        raise Unspecified('call of non-callable')

    def fact_key(self, t):
        if t[0] not in ('a', 'f'):
            raise Unspecified('database operation on non-callable')
        return (t[1], len(t[2]) if t[0] == 'f' else 0)

    def builtin(self, name, args, s, depth):
        n = len(args)
        if name == '=' and n == 2:
            s1 = unify(args[0], args[1], s)
            if s1 is not None:
                yield s1
        elif name == '\\=' and n == 2:
            if unify(args[0], args[1], s) is None:
                yield s
        elif name == 'call' and n >= 1:
            self.events.add('call/%d' % n)
            if args[0][0] == 'v':
                self.events.add('meta-goal-from-variable')
            yield from self.call(self.add_args(args[0], args[1:], s), s, depth + 1)
        elif name == 'once' and n == 1:
            if args[0][0] == 'v':
                self.events.add('meta-goal-from-variable')
            found = False
            for s1 in self.call(self.add_args(args[0], (), s), s, depth + 1):
                found = True
                self.events.add('once-answer')
                yield s1
                return
            if not found:
                self.events.add('once-fails')
        elif name == 'findall' and n == 3:
            if args[1][0] == 'v':
                self.events.add('meta-goal-from-variable')
            res = []
            for s1 in self.call(self.add_args(args[1], (), s), s, depth + 1):
                t = resolve(args[0], s1)
                if term_vars(t, []):
                    # ISO copies the variables of a non-ground instance, the engine shares them with the
                    # caller (and which variable survives depends on binding direction): unspecified by C09
                    self.events.add('findall-nonground-instance')
                res.append(self.rename(t, {}) if self.findall_copy else t)
            self.events.add('findall-%s' % ('0' if not res else '1' if len(res) == 1 else 'many'))
            s2 = unify(args[2], mklist(res), s)
            if s2 is not None:
                yield s2
        elif name in ('asserta', 'assertz') and n == 1:
            t = resolve(args[0], s)
            key = self.fact_key(t)
            f = Fact(self.rename(t, {}))
            lst = self.facts.setdefault(key, [])
            if name == 'asserta':
                lst.insert(0, f)
            else:
                lst.append(f)
            self.events.add(name)
            yield s
        elif name == 'retract' and n == 1:
            t = walk(args[0], s)
            key = self.fact_key(t)
            for f in list(self.facts.get(key, ())):
                if f.erased:
                    self.events.add('retract-skips-erased')
                    continue
                s1 = unify(t, self.rename(f.term, {}), s)
                if s1 is not None:
                    f.erased = True
                    self.facts[key] = [x for x in self.facts[key] if x is not f]
                    self.events.add('retract-removes')
                    yield s1
        elif name == 'retractall' and n == 1:
            t = walk(args[0], s)
            key = self.fact_key(t)
            for f in list(self.facts.get(key, ())):
                if unify(t, self.rename(f.term, {}), s) is not None:
                    f.erased = True
                    self.events.add('retractall-removes')
            if key in self.facts:
                self.facts[key] = [x for x in self.facts[key] if not x.erased]
            yield s
        else:
            self.events.add('unknown-predicate')
            return  # unknown predicate fails

    # ------------------------------------------------------------------ conveniences
    def assert_fact(self, t, append=True):
        key = self.fact_key(t)
        f = Fact(self.rename(t, {}))
        if append:
            self.facts.setdefault(key, []).append(f)
        else:
            self.facts.setdefault(key, []).insert(0, f)

    def query(self, goal_term):
        """yields canonical answers: the resolved goal term with variables numbered by first occurrence"""
        for s in self.call(goal_term, {}, 0):
            yield canon(resolve(goal_term, s))

    def db(self):
        """canonical final database: sorted list of (key, [canonical fact terms])"""
        return sorted((list(k), [canon(f.term) for f in v]) for k, v in self.facts.items() if v)

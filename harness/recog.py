"""Independent recogniser of the language of src/yldprolog/prolog.g4 (oracle of C10, C11, C12).

Lexer written from the token rules (maximal munch, ties to the earlier rule; implicit literals first); parser =
memoising recogniser mapping (non-terminal, start) to the SET of possible end positions (complete for ambiguous
grammars), left recursion removed by language-preserving rewrites.  Plus a clause splitter that names the heads."""
import functools

LITERALS = ['.', ':-', '\\+', ',', '->', ';', '(', ')', '/', '|']   # T__0..T__9 (priority order)
BINOPS = ['=', '\\=', '==', '\\==', '<', '>', '=<', '>=']
LC = 'abcdefghijklmnopqrstuvwxyz_'
UC = 'ABCDEFGHIJKLMNOPQRSTUVWXYZ'
DG = '0123456789'
CH = LC + UC + DG + '_'

class LexError(Exception): pass

def _ident_end(s, i):
    j = i + 1
    while j < len(s) and s[j] in CH: j += 1
    return j

def _string_end(s, i):
    """longest match of '\'' ( ~'\'' | '\\' '\'' )* '\'' starting at i, or None"""
    best = None
    j = i + 1
    while j < len(s):
        if s[j] == "'":
            best = j + 1
            # may this quote be consumed as part of \' ?
            if s[j-1] == '\\' and j - 1 > i:
                j += 1
                continue
            break
        j += 1
    return best

def lex(s, keep_skipped=False):
    """returns list of (type, text, start); raises LexError for any character the lexer cannot tokenise."""
    toks = []
    i = 0
    n = len(s)
    while i < n:
        cands = []   # (length, priority, type)
        pr = 0
        for lit in LITERALS:
            if s.startswith(lit, i): cands.append((len(lit), pr, lit))
            pr += 1
        c = s[i]
        # TRUE, FAIL, CUT
        if s.startswith('true', i): cands.append((4, pr, 'TRUE'))
        pr += 1
        if s.startswith('fail', i): cands.append((4, pr, 'FAIL'))
        pr += 1
        if c == '!': cands.append((1, pr, 'CUT'))
        pr += 1
        if c in UC or c == '_': cands.append((_ident_end(s, i) - i, pr, 'VARIABLE'))
        pr += 1
        if c in LC: cands.append((_ident_end(s, i) - i, pr, 'ATOM'))
        pr += 1
        if c in DG:
            j = i
            while j < n and s[j] in DG: j += 1
            cands.append((j - i, pr, 'NUMERAL'))
        pr += 1
        if c in '-+': cands.append((1, pr, 'UNOP'))
        pr += 1
        for b in BINOPS:
            if s.startswith(b, i): cands.append((len(b), pr, 'BINOP'))
        pr += 1
        if c == "'":
            e = _string_end(s, i)
            if e is not None: cands.append((e - i, pr, 'STRING'))
        pr += 1
        if c == '[': cands.append((1, pr, '['))
        pr += 1
        if c == ']': cands.append((1, pr, ']'))
        pr += 1
        if c in ' \t\r\n': cands.append((1, pr, 'WS'))
        pr += 1
        if c == '%':
            j = i + 1
            while j < n and s[j] not in '\r\n': j += 1
            if j < n: cands.append((j + 1 - i, pr, 'COMMENT'))
        if not cands:
            raise LexError((i, c))
        length, _, typ = max(cands, key=lambda x: (x[0], -x[1]))
        if keep_skipped or typ not in ('WS', 'COMMENT'):
            toks.append((typ, s[i:i+length], i))
        i += length
    return toks

class Recogniser:
    def __init__(self, toks):
        self.t = [x[0] for x in toks]
        self.n = len(self.t)
        self._memo = {}

    def tok(self, i, typ):
        return i < self.n and self.t[i] == typ

    def memo(name):
        def deco(f):
            @functools.wraps(f)
            def g(self, i):
                k = (name, i)
                if k not in self._memo:
                    self._memo[k] = frozenset(f(self, i))
                return self._memo[k]
            return g
        return deco

    # ---- terms ----
    @memo('atom')
    def atom(self, i):
        return {i+1} if i < self.n and self.t[i] in ('ATOM', 'NUMERAL', 'STRING') else set()

    @memo('termlist')
    def termlist(self, i):
        out = {i}                       # empty
        frontier = self.term(i)
        out |= frontier
        seen = set(frontier)
        while frontier:
            nxt = set()
            for j in frontier:
                if self.tok(j, ','):
                    for k in self.term(j+1):
                        if k not in seen: nxt.add(k); seen.add(k)
            out |= nxt
            frontier = nxt
        return out

    @memo('primary')
    def primary(self, i):
        out = set()
        if i >= self.n: return out
        ty = self.t[i]
        # atom
        out |= self.atom(i)
        # functor: atom '(' termlist ')'
        for j in self.atom(i):
            if self.tok(j, '('):
                for k in self.termlist(j+1):
                    if self.tok(k, ')'): out.add(k+1)
        # ATOM '/' NUMERAL
        if ty == 'ATOM' and self.tok(i+1, '/') and self.tok(i+2, 'NUMERAL'): out.add(i+3)
        if ty == 'VARIABLE': out.add(i+1)
        # BINOP '(' term ',' term ')'
        if ty == 'BINOP' and self.tok(i+1, '('):
            for j in self.term(i+2):
                if self.tok(j, ','):
                    for k in self.term(j+1):
                        if self.tok(k, ')'): out.add(k+1)
        # '(' term ')'
        if ty == '(':
            for j in self.term(i+1):
                if self.tok(j, ')'): out.add(j+1)
        if ty == '[':
            # LBRACK termlist RBRACK
            for j in self.termlist(i+1):
                if self.tok(j, ']'): out.add(j+1)
            # LBRACK term (',' termlist)? '|' VARIABLE RBRACK
            for j in self.term(i+1):
                ends = {j}
                if self.tok(j, ','):
                    ends |= self.termlist(j+1)
                for k in ends:
                    if self.tok(k, '|') and self.tok(k+1, 'VARIABLE') and self.tok(k+2, ']'): out.add(k+3)
        return out

    @memo('unary')
    def unary(self, i):
        # UNOP* primary
        out = set(self.primary(i))
        if self.tok(i, 'UNOP'):
            out |= self.term(i+1)       # UNOP term  (term may itself contain BINOPs)
        return out

    @memo('term')
    def term(self, i):
        # term := unary (BINOP term)?   [language-equivalent to the left-recursive rule]
        out = set()
        first = self.unary(i)
        out |= first
        frontier = set(first); seen = set(first)
        while frontier:
            nxt = set()
            for j in frontier:
                if self.tok(j, 'BINOP'):
                    for k in self.unary(j+1):
                        if k not in seen: nxt.add(k); seen.add(k)
            out |= nxt
            frontier = nxt
        return out

    # ---- predicates ----
    @memo('simple')
    def simple(self, i):
        out = set()
        if i < self.n and self.t[i] in ('TRUE', 'FAIL', 'CUT'): out.add(i+1)
        out |= self.term(i)
        return out

    @memo('punary')
    def punary(self, i):
        out = set(self.simple(i))
        if self.tok(i, '\\+'): out |= self.pexpr(i+1)
        if self.tok(i, '('):
            for j in self.pexpr(i+1):
                if self.tok(j, ')'): out.add(j+1)
        return out

    @memo('pexpr')
    def pexpr(self, i):
        first = self.punary(i)
        out = set(first); frontier = set(first); seen = set(first)
        while frontier:
            nxt = set()
            for j in frontier:
                if j < self.n and self.t[j] in (',', '->', ';'):
                    for k in self.punary(j+1):
                        if k not in seen: nxt.add(k); seen.add(k)
            out |= nxt
            frontier = nxt
        return out

    @memo('clause')
    def clause(self, i):
        out = set()
        for j in self.simple(i):
            if self.tok(j, '.'): out.add(j+1)
            if self.tok(j, ':-'):
                for k in self.pexpr(j+1):
                    if self.tok(k, '.'): out.add(k+1)
        # directive
        if self.tok(i, ':-'):
            for j in self.simple(i+1):
                if self.tok(j, '.'): out.add(j+1)
        return out

    def program(self):
        reach = {0}; frontier = {0}
        while frontier:
            nxt = set()
            for i in frontier:
                for j in self.clause(i):
                    if j not in reach: reach.add(j); nxt.add(j)
            frontier = nxt
        return self.n in reach

def in_language(s):
    try:
        toks = lex(s)
    except LexError:
        return False
    return Recogniser(toks).program()

# ------------- ANTLR verdict ----------------
def antlr_verdict(s):
    import antlr4
    from antlr4.error.ErrorListener import ErrorListener
    from yldprolog.prologLexer import prologLexer
    from yldprolog.prologParser import prologParser
    class L(ErrorListener):
        def __init__(self): self.n = 0
        def syntaxError(self, *a): self.n += 1
    l = L()
    lexer = prologLexer(antlr4.InputStream(s)); lexer.removeErrorListeners(); lexer.addErrorListener(l)
    stream = antlr4.CommonTokenStream(lexer)
    parser = prologParser(stream); parser.removeErrorListeners(); parser.addErrorListener(l)
    parser.program()
    return l.n == 0 and stream.LA(1) == antlr4.Token.EOF



def unquote(text):
    """the documented unquoting: strip the quotes, backslash-quote stands for a quote (backslash-free text)"""
    body = text[1:-1]
    return body.replace("\\'", "'") if "\\" in body else body


def split_clauses(s):
    """token-level clause splitter.  Returns (clauses, all_plain): clauses = list of dicts with 'directive' or
    'head' = (name, arity) for plain heads (atom or atom(termlist)); all_plain False if some head has another
    shape (operator term, keyword, numeral name).  Only meaningful for texts in the language."""
    toks = lex(s)
    out = []
    cur = []
    for t in toks:
        cur.append(t)
        if t[0] == '.':
            out.append(cur)
            cur = []
    clauses = []
    all_plain = True
    for cl in out:
        if cl[0][0] == ':-':
            clauses.append({'directive': True})
            continue
        # head = tokens up to ':-' or '.' at depth 0
        depth = 0
        head = []
        for t in cl:
            if t[0] in ('(', '['):
                depth += 1
            elif t[0] in (')', ']'):
                depth -= 1
            if depth == 0 and t[0] in (':-', '.'):
                break
            head.append(t)
        h = plain_head(head)
        if h is None:
            all_plain = False
            clauses.append({'head': None})
        else:
            clauses.append({'head': h})
    return clauses, all_plain


def plain_head(head):
    if not head or head[0][0] not in ('ATOM', 'STRING'):
        return None
    if head[0][0] == 'STRING':
        import re
        if re.search(r"\\(?!')", head[0][1][1:-1]):
            return None     # a backslash that is not part of backslash-quote: the atom's name is unspecified (C16)
    name = head[0][1] if head[0][0] == 'ATOM' else unquote(head[0][1])
    if len(head) == 1:
        return (name, 0)
    if head[1][0] != '(' or head[-1][0] != ')':
        return None
    inner = head[2:-1]
    if not inner:
        return (name, 0)
    depth = 0
    n = 1
    for t in inner:
        if t[0] in ('(', '['):
            depth += 1
        elif t[0] in (')', ']'):
            depth -= 1
            if depth < 0:
                return None
        elif t[0] == ',' and depth == 0:
            n += 1
    if depth != 0:
        return None
    return (name, n)
